"""C13 - free text survives: notes normalise idempotently (structural part), no text breaks its literal."""
from __future__ import annotations

import ast
from typing import Dict, List, Optional, Set, Tuple

from ..core import Collector, guarded, acquire_grammar, norm, Unrecognised, AnchorMissing
from ..pyindex import walk_no_nested, access_path, FuncInfo
from ..cond import term, conjuncts
from ..strctx import TemplateIndex, Sink, sanitiser_of, sinks_of, flatten_concat
from .. import flows

EXPLANATION = (
    'Writer/reader token agreement for free text. Reader side (derived from the grammar IR on every run): which model attributes '
    'are fed by the string-literal token (notes, sticky notes, index names, string defaults, property values, project item '
    'values) and what that token is (three quote styles, backslash escape, only the triple-quoted style spans lines). Writer side '
    '(string-context analysis of the DBML renderer templates, helpers inlined): every sink of such an attribute must stand inside '
    'a quote the token accepts, must have passed a sanitiser whose body (regex / replace read semantically) escapes that quote '
    'character and the escape character itself, and a value containing a line break must be written with the multi-line style '
    '(a '"'"'\\n'"'"' test selecting the triple-quoted form). SQL: every note-text sink stands in a single-quoted literal behind '
    'prepare_text_for_sql, whose body neutralises the single quote; expression text is emitted verbatim between parentheses. '
    'Normalisation: both note blueprints pre-format with strip_empty_lines then remove_indentation; strip_empty_lines only removes '
    'whole blank lines (leading groups "blanks + line break", trailing groups "line break + blanks"); remove_indentation measures '
    'leading whitespace of the non-blank lines only and cuts the same amount from every line.')
RULE_TEXT = 'one obligation per text sink x (quote context, sanitiser, multi-line switch), per sanitiser x escaped character, per SQL note sink, per normalisation step'
ASSUMPTIONS = ['idempotence of the normalisation over all strings is not decided (regular-expression semantics over arbitrary text would need a solver or proof assistant)',
               'the DBML-expressible value domain is the one the extracted tokens define (DESIGN.md section 4)']
ENGINES = ['pyindex', 'grammar', 'strctx', 'paths', 'strval']
TECHNIQUE = 'static analysis (ast): string-context analysis of renderer templates with helper inlining; semantic reading of sanitiser bodies (regex AST, replace pairs); grammar-derived token classes per attribute; structural reading of the normalisation helpers; sanitisers specialised to call-site constants; normalisation chain by dataflow'

DBML = 'pydbml.renderer.dbml.'


def text_sinks(ctx, ti: TemplateIndex, envs, rclasses, pairs) -> List[Tuple[Sink, str]]:
    """Sinks in the DBML renderers whose underlying value is fed by the string-literal token: (sink, label)."""
    out: List[Tuple[Sink, str]] = []
    for s in ti.all_sinks():
        if not s.fn.module.startswith(DBML):
            continue
        kind, src = s.source
        if kind == 'attr':
            for cname, attr in sorted(flows.sink_attrs(ctx, s, envs)):
                cls = rclasses.get((cname, attr), set())
                if 'text' in cls or any('text' in c for c in cls if c.startswith('mixed')):
                    out.append((s, f'{cname}.{attr}'))
        elif kind == 'loop':
            var = src.split(' in ')[0]
            it = src.split(' in ', 1)[1]
            if it.endswith('.properties.items()') and 'property' in pairs:
                # value is the second element of the pair
                if _is_pair_value(s, var) and pairs['property'][1] == 'text':
                    out.append((s, 'property value'))
            elif it.endswith('.items()') and s.fn.qualname == 'render_items' and 'project_item' in pairs:
                if _is_pair_value(s, var) and pairs['project_item'][1] == 'text':
                    out.append((s, 'Project item value'))
    return out


def _is_pair_value(s: Sink, var: str) -> bool:
    for n in ast.walk(s.fn.node):
        if isinstance(n, (ast.For, ast.comprehension)) and isinstance(n.target, ast.Tuple) and len(n.target.elts) == 2:
            if norm(n.target.elts[1]) == var:
                return True
    return False


def run(ctx, col: Collector):
    idx = ctx.idx
    gm = acquire_grammar(ctx, col, 'C13-grammar')
    state: Dict[str, object] = {}

    def setup():
        state['ti'] = TemplateIndex(idx, innermost_context=True)
        state['envs'] = flows.build_envs(ctx, ('pydbml.renderer.',))
        state['rc'] = flows.reader_classes(ctx)
        state['pairs'] = flows.pair_classes(ctx)
        col.stat('template_sinks', len(state['ti'].all_sinks()))
        col.floor('C13-setup', 'renderer template sinks', len(state['ti'].all_sinks()), 90)
        col.floor('C13-setup', 'reader attribute classes', len(state['rc']), 30)
    guarded(col, 'C13-setup', 'setup', setup)

    # ---------------------------------------------------------------- C13-token (reader)
    def token():
        sl = gm.var('generic', 'string_literal')
        from ..grammar import flatten_alt
        qs = [a for a in flatten_alt(sl, ('first', 'or')) if a.kind == 'quoted']
        state['quotes'] = {q.a['quote']: q.a for q in qs}
        col.check(set(state['quotes']) == {"'", '"', "'''"}, 'C13-token', 'string-literal:styles', 'the reader accepts \'..\', ".." and \'\'\'..\'\'\'',
                  f'string literal styles are {sorted(state["quotes"])}', file=sl.file)
        for q, a in sorted(state['quotes'].items()):
            col.check(a['esc'] == '\\', 'C13-token', f'string-literal:{q}:escape', 'backslash escapes the next character', f'style {q} has escape {a["esc"]!r}', file=sl.file)
            col.check(a['multiline'] == (q == "'''"), 'C13-token', f'string-literal:{q}:multiline', 'only the triple-quoted style spans lines',
                      f'style {q} multiline={a["multiline"]}', file=sl.file)
        # every text position uses this one token (styles interchangeable)
        n = 0
        for (cname, attr), cls in sorted(state['rc'].items()):
            if 'text' in cls:
                n += 1
        col.floor('C13-token', 'attributes fed by the string token', n, 3)
    guarded(col, 'C13-token', 'reader-token', token)

    # ---------------------------------------------------------------- C13-sink (writer, DBML)
    def dbml_sinks():
        ti: TemplateIndex = state['ti']
        sinks = text_sinks(ctx, ti, state['envs'], state['rc'], state['pairs'])
        col.floor('C13-sink', 'DBML free-text sinks', len(sinks), 6)
        sanit_cache: Dict[str, object] = {}

        def sanitiser_named(fn: FuncInfo, name: str, at: Optional[Sink] = None):
            f = ti.resolve_func(fn, name)
            if f is None:
                return None, None
            # the helper's rewriting may depend on constants passed at this call site (the delimiter it must escape)
            consts = ti._const_args(at, name, f) if at is not None else {}
            key = (f.id, tuple(sorted((k_, repr(v_)) for k_, v_ in consts.items())))
            if key not in sanit_cache:
                sanit_cache[key] = sanitiser_of(idx, f, consts)
            return f, sanit_cache[key]
        judged_sanitisers: Set[str] = set()
        seen_cons: Set[str] = set()
        groups: Dict[str, List[Tuple[Sink, str]]] = {}
        for s, label in sinks:
            groups.setdefault(f'{label}@{s.fn.qualname}', []).append((s, label))
        for base, members in sorted(groups.items()):
            s, label = members[0]
            finals3 = []
            for ms, _ in members:
                finals3.extend(ti.expand_g(ms))
            # for a mixed-kind attribute (Column.default) only the branch that handles str is a text context
            if label == 'Column.default':
                finals3 = [(f, w, g) for f, w, g in finals3 if any('isinstance' in t and 'str' in t and pol for t, pol in g)
                           and not any('.lower() in' in t and pol for t, pol in g)]
            allguards = {id(f): g for f, w, g in finals3}
            finals = [(f, w) for f, w, g in finals3]
            if label == 'Column.default':
                if not finals:
                    col.bad('C13-sink', f'{label}@{s.fn.qualname}:string-branch', f'{s.fn.qualname} has no branch that writes a string default as a string literal',
                            node=s.node, file=s.fn.file)
                    continue
            quotes = set()
            for f, wr in finals:
                q = f.quote
                quotes.add(q)
                cons = f'{base}:{q or "bare"}'
                if q == '?':
                    col.unk('C13-sink', f'{base}:context@{f.fn.qualname}', f'{label}: cannot read the quote context of `{f.template[:60]}` in {f.fn.qualname} (the neighbouring '
                            f'pieces are not literal text)', node=f.node, file=f.fn.file)
                    continue
                if q not in ("'", "'''", '"'):
                    col.bad('C13-sink', cons + ':quoted', f'{label} is written by {f.fn.qualname} ({f.where}) outside a string literal (template `{f.template[:50]}`): '
                            f'any text with a space or punctuation does not re-parse', node=f.node, file=f.fn.file)
                    continue
                col.ok('C13-sink', cons + ':quoted', f'{label} is written inside {q}..{q}', node=f.node, file=f.fn.file)
                # sanitiser on the way
                found = None
                for w in wr:
                    if w.startswith('.'):
                        continue
                    fdef, san = sanitiser_named(f.fn, w, f)
                    if san is None:
                        fdef, san = sanitiser_named(s.fn, w, s)
                    if san is not None:
                        found = (fdef, san)
                qc = q[0]
                npass = sum(1 for w in wr if not w.startswith('.') and sanitiser_named(f.fn, w, f)[1] is not None)
                if npass > 1:
                    col.bad('C13-sink', cons + ':escaped-once', f'{label} passes {npass} escaping helpers ({[w for w in wr if not w.startswith(".")]}) before it is written by '
                            f'{f.fn.qualname}: escapes are escaped again, so the reader gets backslashes that were not in the text (or a literal that '
                            f'ends early)', node=f.node, file=f.fn.file)
                if found is None and any(not w.startswith('.') and unreadable_text_helper(ti, f.fn, s.fn, w) for w in wr):
                    col.unk('C13-sink', cons + ':sanitised', f'{label}: a helper on the way ({[w for w in wr if not w.startswith(".")]}) rewrites the text in a form this rule '
                            f'cannot read (not a literal pattern / replace)', node=f.node, file=f.fn.file)
                    continue
                if found is None:
                    col.bad('C13-sink', cons + ':sanitised', f'{label} is interpolated between {q} quotes by {f.fn.qualname} ({f.where}) without passing an escaping '
                            f'helper: a {qc} (or a backslash) in the text ends the literal early or is lost on re-parsing', node=f.node, file=f.fn.file)
                    continue
                fdef, san = found
                escaped = san.escapes.get(qc, '')
                col.check(escaped == '\\' + qc, 'C13-sink', cons + ':sanitised', f'{fdef.qualname} escapes {qc} before {label} is written',
                          f'{fdef.qualname} maps {qc!r} to {escaped!r}; the reader needs {qc!r} escaped as {chr(92) + qc!r} inside {q}..{q}', node=f.node, file=f.fn.file)
                if q == "'''":
                    e3 = san.escapes.get("'''", '')
                    col.check(e3.startswith('\\') and "'" in san.escapes, 'C13-sink', cons + ':terminator-escaped',
                              'the triple-quote terminator and single apostrophes are escaped inside the multi-line form',
                              f'inside {q}..{q} {fdef.qualname} does not escape both \'\'\' and lone apostrophes ({san.escapes}): a text ending in an apostrophe merges with '
                              f'the terminator', node=f.node, file=f.fn.file)
                if (fdef.id, tuple(sorted(san.escapes))) not in judged_sanitisers:
                    judged_sanitisers.add((fdef.id, tuple(sorted(san.escapes))))
                    col.check(san.escapes.get('\\') == '\\\\', 'C13-sanitiser', f'{fdef.qualname}:backslash',
                              f'{fdef.qualname} doubles backslashes (the reader removes one level)',
                              f'{fdef.qualname} escapes {sorted(san.escapes)} but not the escape character itself: the reader treats a backslash in the written '
                              f'text as an escape and drops it, so `a\\b` comes back as `ab` and text drifts on every cycle', node=fdef.node, file=fdef.file)
                    col.check(not san.notes, 'C13-sanitiser', f'{fdef.qualname}:readable', 'the sanitiser body is a finite set of literal rewrites',
                              f'{fdef.qualname}: {san.notes}', node=fdef.node, file=fdef.file)
            # multi-line switch
            single = {q for q in quotes if q in ("'", '"')}
            if single and '?' not in quotes:
                def no_newline(gs):
                    # some test on the way establishes that the value contains no line break (either spelling: `'\\n' in x` false / `'\\n' not in x` true)
                    for g, pol in gs:
                        g2 = g.replace('"', "'")
                        if "'\\n' not in" in g2 and pol:
                            return True
                        if "'\\n' in" in g2 and not pol:
                            return True
                    return False
                switch = "'''" in quotes and all(no_newline(allguards[id(f)]) for f, _ in finals if f.quote in ("'", '"'))
                col.check(switch, 'C13-sink', base + ':multi-line-switch', f'{label}: a value containing a line break is written triple-quoted',
                          f'{label} is written by {s.fn.qualname} only in the single-line form ({sorted(single)}) / without a line-break test: a multi-line value is '
                          f'written inside a single-line literal, which the reader rejects', node=s.node, file=s.fn.file)
    guarded(col, 'C13-sink', 'dbml-sinks', dbml_sinks)

    # ---------------------------------------------------------------- C13-indent
    def indentation():
        ti: TemplateIndex = state['ti']
        envs = state['envs']
        sinks = text_sinks(ctx, ti, envs, state['rc'], state['pairs'])
        indented, local_vars = indented_functions(ctx, ti, envs)
        col.stat('functions_whose_output_is_indented', len(indented))
        col.floor('C13-indent', 'functions whose output is re-indented by a caller', len(indented), 4)
        # classes whose text is normalised (common indentation removed) when parsed
        normalised: Set[str] = set()
        for cname, model in (('NoteBlueprint', 'Note'), ('StickyNoteBlueprint', 'StickyNote')):
            ci = idx.cls('pydbml.parser.blueprints', cname)
            pf = idx.lookup_method(ci.id, '_preformat_text')
            if pf is not None:
                from ..inline import inlined_info as _ii
                pfx = _ii(idx, pf, 3, keep={'strip_empty_lines', 'remove_indentation'})
                if any(isinstance(c, ast.Call) and norm(c.func).split('.')[-1] == 'remove_indentation' for c in ast.walk(pfx.node)):
                    normalised.add(model)
        groups: Dict[str, List[Tuple[Sink, str]]] = {}
        for s, label in sinks:
            groups.setdefault(f'{label}@{s.fn.qualname}', []).append((s, label))
        n = 0
        TQ = "'" * 3
        owners = entry_classes(ctx, ti)
        verdicts: Dict[str, List[tuple]] = {}
        for base, members in sorted(groups.items()):
            s, label = members[0]
            is_ind = s.fn.id in indented
            for ms, _ in members:
                # locally: the statement that holds the sink feeds a variable that is passed to indent() later
                for st in walk_no_nested(ms.fn.node):
                    if isinstance(st, (ast.Assign, ast.AugAssign)) and any(x is ms.node for x in ast.walk(st)):
                        tv = norm(st.targets[0]) if isinstance(st, ast.Assign) else norm(st.target)
                        if tv in local_vars.get(ms.fn.id, set()):
                            is_ind = True
            if not is_ind:
                continue
            finals = []
            for ms, _ in members:
                finals.extend(ti.expand(ms))
            multi = [f for f, w in finals if f.quote == TQ]
            if not multi:
                continue          # single-line only: nothing to re-indent
            n += 1
            cls = label.split('.')[0]
            fresh = all(f.left.endswith(TQ + '\n') for f in multi)
            ok = cls in normalised and fresh
            why = ('the text is not normalised when parsed' if cls not in normalised else
                   'the literal opens in the middle of a line, so its first line is not indented with the rest and the common indentation cannot be removed again')
            # one obligation per (text attribute, element kind whose rendering contains the sink): stable when the writing code moves between helpers
            for owner in sorted(owners.get(s.fn.id, ())) or [s.fn.qualname]:
                verdicts.setdefault(f'{label}@{owner}', []).append((ok, why, s))
        for cons, vs in sorted(verdicts.items()):
            label = cons.split('@')[0]
            badv = [v for v in vs if not v[0]]
            if not badv:
                col.ok('C13-indent', cons, f'{label}: a multi-line value is written on fresh lines and de-indented again by the parser', node=vs[0][2].node, file=vs[0][2].fn.file)
            else:
                _, why, s = badv[0]
                col.bad('C13-indent', cons, f'{label} written by {s.fn.qualname} can span lines and the text it is part of is passed through indent() afterwards; {why}: '
                        f'every continuation line comes back with the added indentation (the text drifts on each parse/render cycle)', node=s.node, file=s.fn.file)
        col.floor('C13-indent', 'multi-line text sinks under indent()', n, 4)
    guarded(col, 'C13-indent', 'indentation', indentation)

    # ---------------------------------------------------------------- C13-sql
    def sql_sinks():
        ti: TemplateIndex = state['ti']
        envs = state['envs']
        fsan = idx.func('pydbml.renderer.sql.default.note', 'prepare_text_for_sql')
        san = sanitiser_of(idx, fsan)
        col.check(san is not None and san.escapes.get("'") not in (None, "'") and "'" not in san.escapes.get("'", "'"), 'C13-sql', 'prepare_text_for_sql:quote-neutralised',
                  'prepare_text_for_sql rewrites every single quote into something that cannot close the literal',
                  f'prepare_text_for_sql maps \' to {san.escapes.get(chr(39)) if san else None!r}', node=fsan.node, file=fsan.file)
        # the text it works on is the note text
        p = [a.arg for a in fsan.node.args.args][0]
        reads_text = any(isinstance(n, ast.Attribute) and norm(n) == f'{p}.text' for n in ast.walk(fsan.node))
        col.check(reads_text, 'C13-sql', 'prepare_text_for_sql:reads-note-text', 'works on the note text', 'prepare_text_for_sql does not read <note>.text', node=fsan.node, file=fsan.file)
        n = 0
        for s in ti.all_sinks():
            if not s.fn.module.startswith('pydbml.renderer.sql.'):
                continue
            if 'prepare_text_for_sql' in s.wrappers and s.left.endswith("'"):
                n += 1
                col.check(s.quote == "'" and s.right.startswith("'"), 'C13-sql', f'{s.fn.qualname}:{s.source[1]}:quoted', 'note text stands in a single-quoted SQL literal',
                          f'{s.fn.qualname} writes sanitised note text outside \'..\' (`{s.template[:50]}`)', node=s.node, file=s.fn.file)
        # no note text reaches SQL without the sanitiser
        for s in ti.all_sinks():
            if not s.fn.module.startswith('pydbml.renderer.sql.'):
                continue
            if s.source[0] == 'attr' and s.source[1].endswith('.text'):
                owners = {c for c, a in flows.sink_attrs(ctx, s, envs)}
                if 'Note' in owners:
                    n += 1
                    col.check('prepare_text_for_sql' in s.wrappers, 'C13-sql', f'{s.fn.qualname}:{s.source[1]}:sanitised', 'note text passes prepare_text_for_sql',
                              f'{s.fn.qualname} ({s.where}) writes `{s.source[1]}` into SQL without prepare_text_for_sql', node=s.node, file=s.fn.file)
        col.floor('C13-sql', 'SQL note sinks', n, 2)
        # the plain-comment fallback goes through the sanitiser as well and prefixes every line
        rn = idx.func('pydbml.renderer.sql.default.note', 'render_note')
        calls = [c for c in ast.walk(rn.node) if isinstance(c, ast.Call) and norm(c.func) in ('prepare_text_for_sql', 'generate_comment_on')]
        col.check(len(calls) >= 3, 'C13-sql', 'render_note:all-branches-sanitised', 'every branch of the SQL note renderer uses the sanitiser',
                  f'render_note has {len(calls)} sanitised branches (expected 3)', node=rn.node, file=rn.file)
    guarded(col, 'C13-sql', 'sql-sinks', sql_sinks)

    # ---------------------------------------------------------------- C13-token (the reader's side of the text tokens: shared with C01-lex)
    def tokens():
        # "expression text is passed through verbatim" and "the same stored text comes back" need the reader to return the characters between the quotes /
        # backticks as they stand: the lexical obligations of C01 on the string and expression tokens
        sub = ctx.sub('c01', col.prop)
        n = 0
        for o in sub.obs:
            if o.rule == 'C01-lex' and o.construct.startswith(('expression', 'string')):
                n += 1
                col.obs.append(type(o)(col.prop, 'C13-token', o.construct, o.status, o.msg, o.file, o.line, o.extra))
        col.floor('C13-token', 'lexical obligations on string and expression tokens', n, 2)
    guarded(col, 'C13-token', 'tokens', tokens)

    # ---------------------------------------------------------------- C13-normalise
    def normalise():
        for cname in ('NoteBlueprint', 'StickyNoteBlueprint'):
            ci = idx.cls('pydbml.parser.blueprints', cname)
            pf = idx.lookup_method(ci.id, '_preformat_text')
            b = idx.lookup_method(ci.id, 'build')
            if pf is None or b is None:
                raise AnchorMissing(f'{cname}._preformat_text/build')
            # the chain of functions the text goes through, read by dataflow (nested calls, intermediate variables, a helper that composes the steps)
            from ..inline import inlined_info as _ii
            pfx = _ii(idx, pf, 3, keep={'strip_empty_lines', 'remove_indentation'})

            def chain(e, env, depth=0):
                """(steps applied so far, the root the text comes from) or None"""
                if depth > 12:
                    return None
                if isinstance(e, ast.Name):
                    return env.get(e.id)
                if isinstance(e, ast.Attribute):
                    return ([], norm(e))
                if isinstance(e, ast.Call) and isinstance(e.func, (ast.Name, ast.Attribute)) and len(e.args) == 1 and not e.keywords:
                    inner = chain(e.args[0], env, depth + 1)
                    if inner is None:
                        return None
                    return (inner[0] + [norm(e.func).split('.')[-1]], inner[1])
                return None
            env_: Dict[str, object] = {}
            result = None
            straight = True
            for st in pfx.node.body:
                if isinstance(st, ast.Expr) and isinstance(st.value, ast.Constant):
                    continue
                if isinstance(st, ast.Assign) and len(st.targets) == 1 and isinstance(st.targets[0], ast.Name):
                    env_[st.targets[0].id] = chain(st.value, env_)
                elif isinstance(st, ast.Return) and st.value is not None:
                    result = chain(st.value, env_)
                    break
                else:
                    straight = False
                    break
            want_steps = ['strip_empty_lines', 'remove_indentation']
            if not straight or result is None:
                col.unk('C13-normalise', f'{cname}:steps', f'{cname}._preformat_text: the chain of normalisation steps could not be followed', node=pf.node, file=pf.file)
                col.unk('C13-normalise', f'{cname}:input', f'{cname}._preformat_text: cannot see what text is normalised', node=pf.node, file=pf.file)
            else:
                steps, root = result
                if steps == want_steps:
                    col.ok('C13-normalise', f'{cname}:steps', 'blank lines are stripped, then the common indentation', node=pf.node, file=pf.file)
                elif set(steps) <= set(want_steps):
                    col.bad('C13-normalise', f'{cname}:steps', f'{cname}._preformat_text applies {steps}; expected strip_empty_lines then remove_indentation (both note kinds must '
                            f'normalise alike)', node=pf.node, file=pf.file)
                else:
                    col.unk('C13-normalise', f'{cname}:steps', f'{cname}._preformat_text applies {steps}: steps this rule does not know', node=pf.node, file=pf.file)
                col.check(root == 'self.text', 'C13-normalise', f'{cname}:input', 'the declared text is what gets normalised',
                          f'{cname}._preformat_text does not start from self.text (it normalises `{root}`)', node=pf.node, file=pf.file)
            uses = any(isinstance(c, ast.Call) and norm(c.func) == 'self._preformat_text' for c in ast.walk(b.node))
            direct = any(isinstance(k, ast.keyword) and k.arg == 'text' and norm(k.value) == 'self.text' for c in ast.walk(b.node) if isinstance(c, ast.Call) for k in c.keywords) or \
                any(isinstance(c, ast.Call) and c.args and norm(c.args[0]) == 'self.text' and norm(c.func) in ('Note', 'StickyNote') for c in ast.walk(b.node))
            col.check(uses and not direct, 'C13-normalise', f'{cname}:build-uses-normalised', 'the model object receives the normalised text',
                      f'{cname}.build passes the raw text to the model (normalisation skipped)', node=b.node, file=b.file)
        # strip_empty_lines: only whole blank lines
        se = idx.func('pydbml.tools', 'strip_empty_lines')
        pat = None
        for n in ast.walk(se.node):
            if isinstance(n, ast.Call) and norm(n.func) in ('re.compile', 're.sub') and n.args and isinstance(n.args[0], ast.Constant):
                pat = n.args[0].value
        if pat is None:
            # a pattern compiled once at module level and used here through its name
            mpats = module_patterns(idx, se.module)
            used = [mpats[x.id] for x in ast.walk(se.node) if isinstance(x, ast.Name) and x.id in mpats]
            if len(used) == 1:
                pat = used[0]
        if pat is None:
            raise Unrecognised('strip_empty_lines does not use a literal regular expression', se.node)
        ok, why = blank_line_stripper(pat)
        col.check(ok, 'C13-normalise', 'strip_empty_lines:pattern', 'the pattern removes leading "blanks + line break" groups and trailing "line break + blanks" groups only',
                  f'strip_empty_lines pattern {pat!r}: {why} - it would also remove whitespace that belongs to the first/last text line', node=se.node, file=se.file)
        # remove_indentation
        ri = idx.func('pydbml.tools', 'remove_indentation')
        ok, why = indentation_remover(ri, idx)
        if ok:
            col.ok('C13-normalise', 'remove_indentation:shape', 'the indentation common to the non-blank lines is cut from every line', node=ri.node, file=ri.file)
        elif why.startswith(('lines are measured', 'indentation is measured', 'lines are split on')):
            col.bad('C13-normalise', 'remove_indentation:shape', f'remove_indentation: {why}', node=ri.node, file=ri.file)
        else:
            col.unk('C13-normalise', 'remove_indentation:shape', f'remove_indentation is not read ({why})', node=ri.node, file=ri.file)
    guarded(col, 'C13-normalise', 'normalisation', normalise)


# ----------------------------------------------------------------------------------------------

def blank_line_stripper(pat: str) -> Tuple[bool, str]:
    import re._parser as sp
    import re._constants as sc
    tree = list(sp.parse(pat))
    if not tree or tree[0][0] is not sc.AT or tree[-1][0] is not sc.AT:
        return False, 'the pattern is not anchored at both ends'
    body = tree[1:-1]
    # find the content group (named or the only lazy repeat)
    idx_content = None
    for i, (op, av) in enumerate(body):
        if op is sc.SUBPATTERN and any(o in (sc.MIN_REPEAT,) for o, _ in av[-1]):
            idx_content = i
    if idx_content is None:
        return False, 'no lazily matched content group found'
    lead, tail = body[:idx_content], body[idx_content + 1:]
    BL = {32, 9}

    def only_blanks(items) -> bool:
        for op, av in items:
            if op is sc.LITERAL and av in BL:
                continue
            if op is sc.IN and all(o is sc.LITERAL and v in BL for o, v in av):
                continue
            if op in (sc.MAX_REPEAT, sc.MIN_REPEAT) and only_blanks(av[2]):
                continue
            return False
        return True

    def group_items(item):
        op, av = item
        if op in (sc.MAX_REPEAT, sc.MIN_REPEAT):
            inner = list(av[2])
            if len(inner) == 1 and inner[0][0] is sc.SUBPATTERN:
                return list(inner[0][1][-1])
            return inner
        if op is sc.SUBPATTERN:
            return list(av[-1])
        return [item]
    for it in lead:
        items = group_items(it)
        if not items or items[-1] != (sc.LITERAL, 10) or not only_blanks(items[:-1]):
            return False, 'a leading group is not "blanks followed by a line break"'
    for it in tail:
        items = group_items(it)
        if not items or items[0] != (sc.LITERAL, 10) or not only_blanks(items[1:]):
            return False, 'a trailing group does not start with a line break followed by blanks only (it can eat trailing whitespace of the last text line)'
    return True, ''


def module_patterns(idx, modname: str) -> Dict[str, str]:
    """Module-level names bound to re.compile(<literal>): name -> pattern text."""
    out: Dict[str, str] = {}
    m = idx.modules.get(modname)
    if m is None:
        return out
    for st in m.tree.body:
        if isinstance(st, ast.Assign) and len(st.targets) == 1 and isinstance(st.targets[0], ast.Name) and isinstance(st.value, ast.Call) \
                and norm(st.value.func) == 're.compile' and st.value.args and isinstance(st.value.args[0], ast.Constant) and isinstance(st.value.args[0].value, str):
            out[st.targets[0].id] = st.value.args[0].value
    return out


def indentation_remover(ri: FuncInfo, idx=None) -> Tuple[bool, str]:
    """Recognise: measure leading whitespace of each non-blank line, take the minimum, cut it from every line."""
    if idx is not None:
        from ..inline import inlined_info
        ri = inlined_info(idx, ri, depth=2)
    fn = ri.node
    src = [a.arg for a in fn.args.args][0]
    # (1) the lines
    split = [n for n in walk_no_nested(fn) if isinstance(n, ast.Assign) and isinstance(n.value, ast.Call) and isinstance(n.value.func, ast.Attribute)
             and n.value.func.attr in ('split', 'splitlines') and norm(n.value.func.value) == src]
    if not split:
        return False, 'the text is not split into lines'
    lines = norm(split[0].targets[0])
    sep = split[0].value.args[0].value if split[0].value.args and isinstance(split[0].value.args[0], ast.Constant) else None
    # (2) which lines are measured, and how
    measured_ok = False
    why = 'no loop/comprehension over the lines that measures indentation'
    pats = {norm(n.targets[0]): n.value.args[0].value for n in walk_no_nested(fn) if isinstance(n, ast.Assign) and isinstance(n.value, ast.Call)
            and norm(n.value.func) == 're.compile' and n.value.args and isinstance(n.value.args[0], ast.Constant)}
    if idx is not None:
        used_names = {x.id for x in ast.walk(fn) if isinstance(x, ast.Name)}
        pats.update({k: v for k, v in module_patterns(idx, ri.module).items() if k in used_names})
    for n in ast.walk(fn):
        loops = []
        if isinstance(n, ast.For) and norm(n.iter) == lines:
            lv = norm(n.target)
            conds = [x.test for x in n.body if isinstance(x, ast.If)]
            loops.append((lv, conds, n))
        if isinstance(n, (ast.ListComp, ast.GeneratorExp)) and norm(n.generators[0].iter) == lines and any(
                isinstance(c, ast.Call) and norm(c.func) == 'len' for c in ast.walk(n.elt)):
            lv = norm(n.generators[0].target)
            loops.append((lv, list(n.generators[0].ifs), n))
        for lv, conds, node in loops:
            lits = set()
            for c in conds:
                lits |= set(conjuncts(term(c, True)))
            nonblank = ('truthy', lv) in lits and ('not', ('truthy', f'{lv}.isspace()')) in lits or ('truthy', f'{lv}.strip()') in lits
            if not nonblank:
                why = f'lines are measured under {sorted(map(str, lits))}; whitespace-only (or empty) lines must not take part in the common indentation'
                continue
            # the measure
            m_ok = False
            for c in ast.walk(node):
                if isinstance(c, ast.Call) and norm(c.func) == 'len' and c.args:
                    a = norm(c.args[0])
                    if a.endswith('[0]') or '.group(' in a:
                        # regex based: the pattern must be anchored leading whitespace
                        if any(p in (r'^\s*', r'^[ \t]*', r'\A\s*') for p in pats.values()):
                            m_ok = True
                        else:
                            why = f'indentation is measured with the pattern(s) {list(pats.values())}, not with anchored leading whitespace'
                if isinstance(c, ast.BinOp) and isinstance(c.op, ast.Sub):
                    l, r = norm(c.left), norm(c.right)
                    if l == f'len({lv})' and r == f'len({lv}.lstrip())':
                        m_ok = True
                    elif l == f'len({lv})' and r.startswith(f'len({lv}.'):
                        why = f'indentation is measured as `{norm(c)}`, which also counts whitespace at the end of the line'
            if m_ok:
                measured_ok = True
    if not measured_ok:
        return False, why
    # (3) the minimum, cut from every line
    mins = [n for n in walk_no_nested(fn) if isinstance(n, ast.Assign) and isinstance(n.value, ast.Call) and norm(n.value.func) == 'min']
    if not mins:
        return False, 'the common indentation is not the minimum over the measured lines'
    ind = norm(mins[0].targets[0])
    cut = [n for n in ast.walk(fn) if isinstance(n, (ast.ListComp, ast.GeneratorExp)) and isinstance(n.elt, ast.Subscript)
           and isinstance(n.elt.slice, ast.Slice) and n.elt.slice.lower is not None and norm(n.elt.slice.lower) == ind and n.elt.slice.upper is None
           and not n.generators[0].ifs and norm(n.generators[0].iter) == lines]
    if not cut:
        return False, f'not every line is cut by `[{ind}:]`'
    joins = [n for n in ast.walk(fn) if isinstance(n, ast.Call) and isinstance(n.func, ast.Attribute) and n.func.attr == 'join' and isinstance(n.func.value, ast.Constant)]
    if not joins or (sep is not None and joins[-1].func.value.value != sep):
        return False, f'lines are split on {sep!r} but joined with {joins[-1].func.value.value!r}' if joins else 'lines are not joined back'
    # EVERY return hands back either the untouched input or the lines all cut by the same amount: a return that treats some lines differently (keeps the
    # first line, cuts the rest by another amount) makes the result depend on layout and breaks idempotence
    cut_ids = {id(c) for c in cut}
    cut_vars = {norm(n.targets[0]) for n in walk_no_nested(fn) if isinstance(n, ast.Assign) and id(n.value) in cut_ids}
    for r in [n for n in walk_no_nested(fn) if isinstance(n, ast.Return) and n.value is not None]:
        v = r.value
        if norm(v) == src:
            continue
        if isinstance(v, ast.Call) and isinstance(v.func, ast.Attribute) and v.func.attr == 'join' and len(v.args) == 1:
            a = v.args[0]
            if id(a) in cut_ids or (isinstance(a, ast.Name) and a.id in cut_vars) or (isinstance(a, ast.Name) and a.id == lines and lines in cut_vars):
                continue
            if isinstance(a, ast.BinOp) or (isinstance(a, (ast.ListComp, ast.GeneratorExp)) and id(a) not in cut_ids):
                return False, f'lines are measured ... and a return path joins `{norm(a)[:70]}`: not every line is cut by the one common indentation on that path'
        return False, f'return `{norm(v)[:60]}` is not read'
    return True, ''


def entry_classes(ctx, ti: TemplateIndex) -> Dict[str, Set[str]]:
    """function id -> names of the model classes whose registered DBML renderer is that function or reaches it through plain calls."""
    idx = ctx.idx
    funcs = {fid: fi for fid, fi in ti.funcs.items() if fi.module.startswith(DBML)}
    reg = {}
    for rid, table in idx.registry.items():
        if '.dbml.' in idx.classes[rid].module:
            reg = table
    out: Dict[str, Set[str]] = {}
    for cls_id, fns in reg.items():
        cname = cls_id.split(':')[-1]
        seen: Set[str] = set()
        todo = [g for g in fns]
        while todo:
            fi = todo.pop()
            if fi.id in seen:
                continue
            seen.add(fi.id)
            out.setdefault(fi.id, set()).add(cname)
            for c in ast.walk(fi.node):
                if isinstance(c, ast.Call) and isinstance(c.func, ast.Name):
                    t = ti.resolve_func(fi, c.func.id)
                    if t is not None and t.id in funcs and t.id not in seen:
                        todo.append(t)
    return out


def indented_functions(ctx, ti: TemplateIndex, envs) -> Tuple[Set[str], Dict[str, Set[str]]]:
    """(ids of DBML render functions whose returned text is passed through indent() by some caller - transitively
    including the helpers they call -, per function the local variables that are passed to indent())."""
    idx = ctx.idx
    funcs = {fid: fi for fid, fi in ti.funcs.items() if fi.module.startswith(DBML)}
    reg = {}
    for rid, table in idx.registry.items():
        if '.dbml.' in idx.classes[rid].module:
            reg = table
    indented: Set[str] = set()
    local_vars: Dict[str, Set[str]] = {}

    def sources(fi: FuncInfo, e: ast.AST, depth: int = 0):
        for n in ast.walk(e):
            if isinstance(n, ast.Call):
                f = n.func
                if isinstance(f, ast.Name):
                    t = ti.resolve_func(fi, f.id)
                    if t is not None and t.id in funcs:
                        indented.add(t.id)
                if isinstance(f, ast.Attribute) and f.attr == 'render' and n.args:
                    ap = access_path(n.args[0])
                    if ap:
                        for t in flows.type_of_path(ctx, fi, ap, envs.get(fi.id, {})):
                            for g in reg.get(t, []):
                                indented.add(g.id)
            if isinstance(n, ast.Attribute) and n.attr == 'dbml':
                ap = access_path(n.value)
                if ap:
                    for t in flows.type_of_path(ctx, fi, ap, envs.get(fi.id, {})):
                        for g in reg.get(t, []):
                            indented.add(g.id)
            if isinstance(n, ast.Name) and isinstance(n.ctx, ast.Load) and depth < 3:
                for st in walk_no_nested(fi.node):
                    if isinstance(st, ast.Assign) and norm(st.targets[0]) == n.id:
                        local_vars.setdefault(fi.id, set()).add(n.id)
                        sources(fi, st.value, depth + 1)
                    if isinstance(st, ast.AugAssign) and norm(st.target) == n.id:
                        local_vars.setdefault(fi.id, set()).add(n.id)
                        sources(fi, st.value, depth + 1)
    for fid, fi in funcs.items():
        for c in ast.walk(fi.node):
            if isinstance(c, ast.Call) and isinstance(c.func, ast.Name) and c.func.id == 'indent' and c.args:
                sources(fi, c.args[0])
    # helpers called by an indented function contribute to its output
    changed = True
    while changed:
        changed = False
        for fid in list(indented):
            fi = funcs.get(fid)
            if fi is None:
                continue
            for c in ast.walk(fi.node):
                if isinstance(c, ast.Call) and isinstance(c.func, ast.Name):
                    t = ti.resolve_func(fi, c.func.id)
                    if t is not None and t.id in funcs and t.id not in indented:
                        indented.add(t.id)
                        changed = True
    return indented, local_vars


def unreadable_text_helper(ti: TemplateIndex, fn1: FuncInfo, fn2: FuncInfo, name: str) -> bool:
    """name is a package function that manipulates text with re / replace / translate but whose body sanitiser_of cannot read."""
    t = ti.resolve_func(fn1, name) or ti.resolve_func(fn2, name)
    if t is None:
        return False
    if sanitiser_of(ti.idx, t) is not None:
        return False
    for n in ast.walk(t.node):
        if isinstance(n, ast.Call) and isinstance(n.func, ast.Attribute) and n.func.attr in ('sub', 'subn', 'replace', 'translate', 'escape'):
            return True
    return False
