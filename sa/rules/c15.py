"""C15 - arbitrary properties are honoured exactly when enabled."""
from __future__ import annotations

import ast
from typing import List, Optional, Set

from ..core import Collector, guarded, acquire_grammar, norm, Unrecognised, AnchorMissing
from ..grammar import G, named_nodes, names_inner, names_out, walk, flatten_and, top_shape, action_reads
from .. import gtools as gt
from ..pyindex import walk_no_nested, access_path
from ..paths import walk_event, Ev
from ..cond import term, conjuncts
from .common import paths_of, event_calls
from .c07 import _N

EXPLANATION = (
    'On the grammar IR of both option values: the syntax selected when the option is on can produce the `property` results '
    'name for tables and columns, the one selected when it is off cannot (polarity by content, not by variable name); the two '
    'syntaxes are structurally identical after removing the property alternatives (sibling comparison, nested sequences '
    'flattened, adjacent blank skippers merged); the property form is name `:` string (two tokens) and is newline-tolerant '
    'like every other settings alternative; the parse actions build the dict by a comprehension over the matches (keys, '
    'values, order). On the Python side: the flag is forwarded PyDBMLParser -> Database and stored; both DBML render sites emit '
    'properties only on paths where `<database>.allow_properties` was tested true (polarity and dominance by path enumeration), '
    'reading the flag at render time from the owning database.')
RULE_TEXT = 'one obligation per configuration, per sibling pair, per settings-list alternative (newline tolerance), per render gate and per forwarding hop'
ASSUMPTIONS = ['pyparsing combinator semantics as modelled in sa/grammar.py',
               'decides the structural conditions; the round trip of property documents itself is not decided (keys are written bare, see C02)']
ENGINES = ['pyindex', 'grammar', 'paths']
TECHNIQUE = 'static analysis (ast): grammar IR sibling comparison and results-name reachability per option value; guard polarity/dominance by path enumeration at the render gates; keyword forwarding; shared-state write scan of the parser package (the selected grammar is per-parser state)'


def run(ctx, col: Collector):
    idx = ctx.idx
    gm = acquire_grammar(ctx, col, 'C15-grammar')
    PROP = 'property'

    # ---------------------------------------------------------------- C15-select
    def select():
        for flag in (False, True):
            nodes = gm.reachable(flag)
            carriers = [n for n in nodes if n.name == PROP]
            if flag:
                col.check(bool(carriers), 'C15-select', 'allow_properties=True:grammar-has-property',
                          f'{len(carriers)} property alternatives reachable when the option is on',
                          'with allow_properties=True the selected syntax contains no `property` alternative: the option has no effect '
                          '(grammar selection inverted or alternatives removed)', node=gm.set_syntax.node, file=gm.set_syntax.file)
                # visible to parse_table and parse_column_settings
                for fname in ('parse_table', 'parse_column_settings'):
                    gs = [g for g in gm.nodes_with_action(fname, True)]
                    vis = [g for g in gs if PROP in names_inner(g)]
                    col.check(bool(vis), 'C15-select', f'allow_properties=True:{fname}:sees-property',
                              f'{fname} receives the `property` matches', f'with the option on, no rule bound to {fname} can hand it a '
                              f'`property` match: properties are parsed nowhere or dropped', node=_N(gs[0]) if gs else None,
                              file=gs[0].file if gs else '')
                    for g in vis:
                        reads = set()
                        for a in g.actions:
                            reads |= set(action_reads(a))
                        col.check(PROP in reads, 'C15-select', f'{fname}@{g.var}:reads-property', f'{fname} reads tok[{PROP!r}]',
                                  f'{fname} never reads the `property` matches it receives', node=_N(g), file=g.file)
            else:
                for n in carriers:
                    col.bad('C15-select', f'allow_properties=False:{n.module.split(".")[-1]}:property@{n.line}',
                            f'with allow_properties=False the selected syntax still contains a `property` alternative ({n.file}:{n.line}): '
                            f'`key: \'value\'` is accepted although the option is off', node=_N(n), file=n.file)
                col.check(not carriers, 'C15-select', 'allow_properties=False:grammar-has-no-property',
                          'no property alternative is reachable when the option is off', 'property alternatives reachable with the option off',
                          node=gm.set_syntax.node, file=gm.set_syntax.file)
    guarded(col, 'C15-select', 'grammar-selection', select)

    # ---------------------------------------------------------------- C15-sibling
    def sibling():
        a = gt.struct_key(gm.configs[False])
        b = gt.struct_key(gm.configs[True], frozenset({PROP}))
        d = gt.key_diff(a, b)
        col.check(d is None, 'C15-sibling', 'syntax(off)==syntax(on)-property',
                  'the syntax used with the option on equals the default syntax once the property alternatives are removed',
                  f'enabling allow_properties changes the grammar beyond adding property alternatives: {d}',
                  node=gm.set_syntax.node, file=gm.set_syntax.file)
        # per top-level alternative, to name the rule that differs
        alts0, alts1 = top_shape(gm.configs[False])['alts'], top_shape(gm.configs[True])['alts']
        col.check(len(alts0) == len(alts1), 'C15-sibling', 'top-level:alternative-count', f'{len(alts0)} alternatives in both configurations',
                  f'{len(alts0)} top-level alternatives with the option off, {len(alts1)} with it on', node=gm.set_syntax.node, file=gm.set_syntax.file)
        for x, y in zip(alts0, alts1):
            dx = gt.key_diff(gt.struct_key(x), gt.struct_key(y, frozenset({PROP})))
            col.check(dx is None, 'C15-sibling', f'{x.var}~{y.var}', f'`{y.var}` = `{x.var}` + property alternatives',
                      f'`{y.var}` differs from `{x.var}` by more than the property alternatives: {dx}', node=_N(y), file=y.file)
        # sub-rules bound to the same action in both configurations
        for fname in ('parse_column', 'parse_column_settings'):
            g0 = gm.nodes_with_action(fname, False)
            g1 = gm.nodes_with_action(fname, True)
            if not g0 or not g1:
                raise AnchorMissing(f'rules bound to {fname} in both configurations')
            k0 = {gt.struct_key(g) for g in g0}
            k1 = {gt.struct_key(g, frozenset({PROP})) for g in g1}
            dx = None if k0 == k1 else gt.key_diff(sorted(k0, key=repr)[0], sorted(k1, key=repr)[0])
            col.check(k0 == k1, 'C15-sibling', f'{fname}:rules', f'rules bound to {fname} agree modulo property alternatives',
                      f'the rule bound to {fname} with the option on differs from the default one by more than the property alternatives: {dx}',
                      node=_N(g1[0]), file=g1[0].file)
    guarded(col, 'C15-sibling', 'sibling-grammars', sibling)

    # ---------------------------------------------------------------- C15-form
    def form():
        carriers = [n for n in gm.reachable(True) if n.name == PROP]
        col.floor('C15-form', 'property alternatives', len(carriers), 2)
        seen = set()
        for n in carriers:
            key = (n.module, n.line)
            if key in seen:
                continue
            seen.add(key)
            cons = f'{n.module.split(".")[-1]}:property@{n.line}'
            tc = gt.token_count(n)
            col.check(tc == (2, 2), 'C15-form', cons + ':two-tokens', 'a property match is exactly (key, value)',
                      f'a property match yields {tc} tokens; the parse actions unpack `k, v`', node=_N(n), file=n.file)
            col.check(n.list_all, 'C15-form', cons + ':all-matches', 'all property matches are kept (list_all_matches)',
                      'the `property` results name keeps only the last match: all but one property are dropped', node=_N(n), file=n.file)
            seq = [x for x in flatten_and(n) if x.kind not in gt.ZERO_WIDTH]
            shape_ok = (len(seq) == 3 and gt.lit_of(seq[1]) == ':' and seq[1].kind == 'suppress'
                        and all(t.kind in ('word', 'quoted') for t in gt.first_tokens(seq[0]))
                        and all(t.kind == 'quoted' for t in gt.first_tokens(seq[2])))
            col.check(shape_ok, 'C15-form', cons + ':shape', 'property form is <name> `:` <string literal>',
                      f'the property alternative is not <name> `:` <string literal>', node=_N(n), file=n.file)
        # the actions keep keys, values and order: a dict comprehension/dict() over tok['property']
        for fname in ('parse_table', 'parse_column_settings'):
            gs = gm.nodes_with_action(fname, True)
            if not gs:
                raise AnchorMissing(fname)
            act = [a for a in gs[0].actions if a.name == fname][0]
            ok = False
            from ..inline import inline_function
            try:
                act_node = inline_function(idx, idx.func(act.module, fname), depth=2)
            except Exception:
                act_node = act.node
            reads_prop = any(isinstance(x, ast.Subscript) and isinstance(x.slice, ast.Constant) and x.slice.value == PROP for x in ast.walk(act_node))
            for x in ast.walk(act_node):
                if isinstance(x, ast.DictComp) and len(x.generators) == 1 and not x.generators[0].ifs:
                    gen = x.generators[0]
                    if (isinstance(gen.iter, ast.Subscript) and isinstance(gen.iter.slice, ast.Constant) and gen.iter.slice.value == PROP
                            and isinstance(gen.target, ast.Tuple) and len(gen.target.elts) == 2
                            and norm(x.key) == norm(gen.target.elts[0]) and norm(x.value) == norm(gen.target.elts[1])):
                        ok = True
                if isinstance(x, ast.Call) and norm(x.func) == 'dict' and x.args and isinstance(x.args[0], ast.Subscript) \
                        and isinstance(x.args[0].slice, ast.Constant) and x.args[0].slice.value == PROP:
                    ok = True
            # positive evidence of a lossy build: a comprehension over the matches that filters, swaps or rewrites the pairs
            lossy = None
            for x in ast.walk(act_node):
                if isinstance(x, (ast.DictComp, ast.ListComp, ast.GeneratorExp, ast.SetComp)) and len(x.generators) == 1:
                    gen = x.generators[0]
                    if isinstance(gen.iter, ast.Subscript) and isinstance(gen.iter.slice, ast.Constant) and gen.iter.slice.value == PROP:
                        if gen.ifs:
                            lossy = f'`{norm(x)[:80]}` filters the matches'
                        elif isinstance(x, ast.DictComp) and isinstance(gen.target, ast.Tuple) and len(gen.target.elts) == 2 and \
                                (norm(x.key) != norm(gen.target.elts[0]) or norm(x.value) != norm(gen.target.elts[1])):
                            lossy = f'`{norm(x)[:80]}` does not map each key to its own value unchanged'
                        elif isinstance(x, ast.SetComp):
                            lossy = f'`{norm(x)[:80]}` loses the order'
            cons = f'{fname}:dict-of-all-pairs'
            fpath = act.module.replace('.', '/') + '.py'
            if ok:
                col.ok('C15-form', cons, f'{fname} stores every (key, value) pair in order', node=act.node, file=fpath)
            elif lossy:
                col.bad('C15-form', cons, f'{fname} builds the properties from {lossy}: keys, values or order change', node=act.node, file=fpath)
            elif not reads_prop:
                col.bad('C15-form', cons, f'{fname} never reads tok[{PROP!r}]: declared properties are dropped', node=act.node, file=fpath)
            else:
                col.unk('C15-form', cons, f'{fname} reads tok[{PROP!r}] but the way it builds the properties dict is not recognised', node=act.node, file=fpath)
    guarded(col, 'C15-form', 'property-form', form)

    def value_roundtrip():
        # property values are free text: writer/reader token agreement (rule shared with C13)
        sub = ctx.sub('c13', col.prop)
        n = 0
        for o in sub.obs:
            if o.rule == 'C13-sink' and o.construct.startswith('property value'):
                n += 1
                col.obs.append(type(o)(col.prop, 'C15-form', 'value-literal:' + o.construct, o.status, o.msg, o.file, o.line, o.extra))
        col.floor('C15-form', 'property value sinks', n, 4)
        # property keys are names: written bare only when the reader takes them bare (rule shared with C02-ident)
        sub2 = ctx.sub('c02', col.prop)
        m = 0
        for o in sub2.obs:
            if o.rule == 'C02-ident' and (o.construct.endswith(':bare-pattern') or o.construct.startswith('property key')):
                m += 1
                col.obs.append(type(o)(col.prop, 'C15-form', 'key:' + o.construct, o.status, o.msg, o.file, o.line, o.extra))
        col.floor('C15-form', 'property key obligations', m, 2)
    guarded(col, 'C15-form', 'property-value-literal', value_roundtrip)

    # ---------------------------------------------------------------- C15-newline
    def newline():
        n_alt = 0
        for flag in (False, True):
            for n, seq in gt.bracket_lists(gm.reachable(flag)):
                lid = f'{n.module.split(".")[-1]}:{n.var or "list@" + str(n.line)}'
                close = None
                for i, x in enumerate(seq[1:], 1):
                    if gt.lit_of(x) == ']':
                        close = i
                        break
                body = seq[1:close] if close else seq[1:]
                # element positions with their raw wrappers
                positions: List[List[G]] = []
                cur: List[G] = []
                for x in body:
                    if x.kind == 'repeat' and x.kids and x.kids[0].kind == 'and':
                        if cur:
                            positions.append(cur)
                            cur = []
                        inner = [y for y in flatten_and(x.kids[0]) if gt.lit_of(y) is None and y.kind not in gt.ZERO_WIDTH]
                        positions.append(inner)
                    elif gt.lit_of(x) is None and x.kind not in gt.ZERO_WIDTH:
                        cur.append(x)
                if cur:
                    positions.append(cur)
                for pi, pos in enumerate(positions):
                    lead_outer = bool(pos) and gt.is_blank_skipper(pos[0]) and gt.nullable(pos[0])
                    trail_outer = bool(pos) and gt.is_blank_skipper(pos[-1]) and gt.nullable(pos[-1])
                    cores = [x for x in pos if not (gt.is_blank_skipper(x) and gt.nullable(x))]
                    for c in cores:
                        for alt in gt.alternatives_of(gt.core_of(c)) if not (lead_outer and trail_outer) else [c]:
                            n_alt += 1
                            lead = lead_outer or gt.leads_with_skipper(c if alt is c else alt) or (alt is not c and gt.leads_with_skipper(c))
                            trail = trail_outer or gt.leads_with_skipper(c if alt is c else alt, True) or (alt is not c and gt.leads_with_skipper(c, True))
                            cons = f'allow_properties={flag}:{lid}:pos{pi}:{alt.name or alt.var or alt.label()}@{alt.line}'
                            col.check(lead and trail, 'C15-newline', cons, 'alternative tolerates line breaks before and after it',
                                      f'in settings list `{lid}` the alternative `{alt.name or alt.var or alt.label()}` (line {alt.line}) is not wrapped by '
                                      f'the newline/comment skipper (before={lead}, after={trail}): a multi-line settings list is a syntax error '
                                      f'when this alternative follows a line break', node=_N(alt), file=alt.file)
        col.floor('C15-newline', 'settings alternatives/positions', n_alt, 12)
    guarded(col, 'C15-newline', 'newline-tolerance', newline)

    # ---------------------------------------------------------------- C15-gate
    def gates():
        sites = [('pydbml.renderer.dbml.default.column', 'render_options', ('model.table.database',)),
                 ('pydbml.renderer.dbml.default.table', 'render_table', ('model.database',))]
        for mod, fname, _ in sites:
            from ..inline import inlined_info
            from ..cond import copy_subst
            fi = inlined_info(idx, idx.func(mod, fname), depth=2, keep={'name_to_dbml', 'quote_string', 'string_to_dbml', 'note_option_to_dbml', 'comment_to_dbml'})
            p = [a.arg for a in fi.node.args.args][0]
            # `db = owner.database if owner else None` / `db = owner and owner.database`: where db is used under a truth test it IS owner.database
            for a_ in ast.walk(fi.node):
                if isinstance(a_, ast.Assign) and len(a_.targets) == 1 and isinstance(a_.targets[0], ast.Name):
                    v_ = a_.value
                    if isinstance(v_, ast.IfExp) and isinstance(v_.orelse, ast.Constant) and v_.orelse.value is None and access_path(v_.body):
                        a_.value = v_.body
                    elif isinstance(v_, ast.BoolOp) and isinstance(v_.op, ast.And) and access_path(v_.values[-1]) and all(
                            access_path(x) and access_path(v_.values[-1]).startswith(access_path(x)) for x in v_.values[:-1]):
                        a_.value = v_.values[-1]
            paths = paths_of(fi, 1)

            def emits(ev: Ev) -> bool:
                for n in walk_event(ev):
                    if isinstance(n, ast.Attribute) and n.attr == 'properties' and access_path(n) == f'{p}.properties':
                        # reading the dict for output: .items() / iteration, not the bare truthiness test
                        return ev.kind != 'test'
                return False
            n_emit = 0
            bad = None
            flags_seen: Set[str] = set()
            for path in paths:
                for i, ev in enumerate(path):
                    if emits(ev):
                        n_emit += 1
                        lits = []
                        seen_stmts: List[ast.AST] = []
                        for e2 in path[:i]:
                            if e2.kind == 'stmt':
                                seen_stmts.append(e2.node)
                            elif e2.kind == 'test':
                                lits.extend(conjuncts(term(e2.node, e2.outcome, copy_subst(seen_stmts))))
                        gate = [l for l in lits if l[0] == 'truthy' and l[1].endswith('.allow_properties')]
                        if not gate:
                            bad = bad or (ev, 'no test of `<database>.allow_properties` was true before it')
                        for l in gate:
                            flags_seen.add(l[1])
                            owner = l[1][:-len('.allow_properties')]
                            if not (owner.startswith(p + '.') and owner.endswith('database')):
                                bad = bad or (ev, f'the flag is read from `{owner}`, not from the database that owns the rendered object')
                        break
            if n_emit == 0:
                col.bad('C15-gate', f'{fname}:emits-properties', f'{fname} never emits `{p}.properties`: properties are not rendered even when the '
                        f'option is on', node=fi.node, file=fi.file)
                continue
            col.ok('C15-gate', f'{fname}:emits-properties', f'{fname} emits the properties on {n_emit} paths', node=fi.node, file=fi.file)
            col.check(bad is None, 'C15-gate', f'{fname}:gated-by-flag',
                      f'every emitting path passed a true test of {sorted(flags_seen)}',
                      f'{fname} emits properties on a path where {bad[1] if bad else ""} (`{norm(bad[0].node) if bad and bad[0].node is not None else ""}`): '
                      f'the render-time gate is missing or inverted', node=bad[0].node if bad and bad[0].node is not None else fi.node, file=fi.file)
            # no caching of the flag: it is read inside the function from the model
            single: dict = {}
            for st_ in walk_no_nested(fi.node):
                if isinstance(st_, ast.Assign) and len(st_.targets) == 1 and isinstance(st_.targets[0], ast.Name):
                    single.setdefault(st_.targets[0].id, []).append(st_.value)

            def rooted(path_: str, depth: int = 0) -> bool:
                head = path_.split('.', 1)[0]
                if head == p:
                    return True
                vals = single.get(head, [])
                return depth < 4 and len(vals) == 1 and access_path(vals[0]) is not None and rooted(access_path(vals[0]), depth + 1)
            cached = [n for n in walk_no_nested(fi.node) if isinstance(n, ast.Attribute) and n.attr == 'allow_properties'
                      and not rooted(access_path(n) or '')]
            col.check(not cached, 'C15-gate', f'{fname}:flag-read-from-model', 'the flag is read from the model at render time',
                      f'{fname} reads allow_properties from `{norm(cached[0]) if cached else ""}`, not through the rendered object: flipping the '
                      f'database flag would not switch rendering', node=cached[0] if cached else fi.node, file=fi.file)
    guarded(col, 'C15-gate', 'render-gates', gates)

    # ---------------------------------------------------------------- C15-flag
    def flag_flow():
        pcls = idx.cls('pydbml.parser.parser', 'PyDBMLParser')
        init = pcls.methods['__init__']
        stored = None
        for n in walk_no_nested(init.node):
            if isinstance(n, ast.Assign) and len(n.targets) == 1 and isinstance(n.value, ast.Name) and n.value.id == 'allow_properties':
                stored = norm(n.targets[0])
        col.check(stored is not None and stored.startswith('self.'), 'C15-flag', 'PyDBMLParser.__init__:stores-flag',
                  f'the parser keeps the option as {stored}', 'PyDBMLParser.__init__ does not store its allow_properties argument',
                  node=init.node, file=init.file)
        # _set_syntax branches on the same attribute
        # ... directly or in a method of the parser it uses (called, or handed on as a callable): the closure over `self.<method>`
        closure = [gm.set_syntax]
        seen_m = {gm.set_syntax.qualname}
        for f_ in closure:
            for n in ast.walk(f_.node):
                if isinstance(n, ast.Attribute) and isinstance(n.value, ast.Name) and n.value.id == 'self' and n.attr in pcls.methods \
                        and pcls.methods[n.attr].qualname not in seen_m and len(closure) < 12:
                    seen_m.add(pcls.methods[n.attr].qualname)
                    closure.append(pcls.methods[n.attr])
        tests = [norm(n.test) for f_ in closure for n in ast.walk(f_.node) if isinstance(n, (ast.IfExp, ast.If, ast.While))]
        tests += [norm(n.subject) for f_ in closure for n in ast.walk(f_.node) if isinstance(n, ast.Match)]
        reads = [n for f_ in closure for n in ast.walk(f_.node) if isinstance(n, ast.Attribute) and isinstance(n.ctx, ast.Load) and stored is not None and norm(n) == stored]
        if stored is not None and any(stored in t for t in tests):
            col.ok('C15-flag', '_set_syntax:branches-on-flag', f'_set_syntax selects the grammar on {stored}', node=gm.set_syntax.node, file=gm.set_syntax.file)
        elif stored is not None and reads:
            col.unk('C15-flag', '_set_syntax:branches-on-flag', f'_set_syntax reads {stored} but not in a test this rule can follow ({len(reads)} reads in '
                    f'{[f_.qualname for f_ in closure]})', node=reads[0], file=gm.set_syntax.file)
        else:
            col.bad('C15-flag', '_set_syntax:branches-on-flag', f'neither _set_syntax nor a parser method it uses ({[f_.qualname for f_ in closure]}) reads '
                    f'{stored}: the grammar is the same whatever the option says', node=gm.set_syntax.node, file=gm.set_syntax.file)
        bd = pcls.methods.get('build_database')
        if bd is None:
            raise AnchorMissing('PyDBMLParser.build_database')
        calls = [n for n in walk_no_nested(bd.node) if isinstance(n, ast.Call) and isinstance(n.func, ast.Name) and n.func.id == 'Database']
        if len(calls) != 1:
            raise Unrecognised(f'build_database constructs Database {len(calls)} times', bd.node)
        kw = {k.arg: k.value for k in calls[0].keywords}
        dbinit = idx.cls('pydbml.database', 'Database').methods['__init__']
        params = [a.arg for a in dbinit.node.args.args][1:]
        val = kw.get('allow_properties')
        if val is None and 'allow_properties' in params:
            i = params.index('allow_properties')
            if i < len(calls[0].args):
                val = calls[0].args[i]
        col.check(val is not None and norm(val) == stored, 'C15-flag', 'build_database:forwards-flag',
                  'the resulting database gets the parser\'s option value',
                  f'build_database passes allow_properties={norm(val) if val is not None else "<default>"} to Database (expected {stored}): the '
                  f'result does not have the option enabled', node=calls[0], file=bd.file)
        st = None
        for n in walk_no_nested(dbinit.node):
            if isinstance(n, ast.Assign) and len(n.targets) == 1 and norm(n.targets[0]) == 'self.allow_properties':
                st = n
        col.check(st is not None and isinstance(st.value, ast.Name) and st.value.id == 'allow_properties', 'C15-flag',
                  'Database.__init__:stores-flag', 'Database stores the option as a plain attribute (can be flipped later)',
                  f'Database.__init__ does not store allow_properties unchanged (`{norm(st) if st else "missing"}`)', node=st or dbinit.node, file=dbinit.file)
        col.check(idx.lookup_prop(idx.cls('pydbml.database', 'Database').id, 'allow_properties') is None, 'C15-flag',
                  'Database.allow_properties:plain-attribute', 'no property shadows the flag', 'Database.allow_properties is a computed property')
    guarded(col, 'C15-flag', 'flag-flow', flag_flow)

    def entry_hops():
        # the option travels PyDBML.__new__ / parse -> PyDBMLParser on every route (rule shared with C12)
        sub = ctx.sub('c12', col.prop)
        n = 0
        for o in sub.obs:
            if o.rule == 'C12-options' and (o.construct.endswith(':allow_properties') or o.status == 'unrecognised'):
                n += 1
                col.obs.append(type(o)(col.prop, 'C15-flag', 'route:' + o.construct, o.status, o.msg, o.file, o.line, o.extra))
        col.floor('C15-flag', 'entry-route hops carrying allow_properties', n, 4)
    guarded(col, 'C15-flag', 'entry-hops', entry_hops)

    def instance_state():
        # the option is a property of ONE parser: anything the parser package writes into class-level / module-level state while it is
        # being set up outlives that parser, so the syntax of a later parser depends on the options of an earlier one (rule shared with C11)
        sub = ctx.sub('c11', col.prop)
        n = bad = 0
        for o in sub.obs:
            if o.rule != 'C11-shared' or not (o.file or '').startswith('pydbml/parser/'):
                continue
            n += 1
            if o.status == 'refuted':
                bad += 1
                col.obs.append(type(o)(col.prop, 'C15-flag', 'instance-state:' + o.construct, o.status,
                                       o.msg + ' - the grammar selected by allow_properties then leaks from one parser to the next', o.file, o.line, o.extra))
        if any(o.rule == 'C11-shared' and o.status == 'unrecognised' for o in sub.obs):
            col.unk('C15-flag', 'instance-state', 'the shared-state scan of the parser package is undecided')
        elif not bad:
            col.ok('C15-flag', 'instance-state', 'nothing in pydbml/parser writes class-level or module-level state at run time: the selected grammar is per parser')
    guarded(col, 'C15-flag', 'instance-state', instance_state)
