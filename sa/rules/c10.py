"""C10 - renderings always reflect the current state of the model after edits.

Structural part decided: (a) everything reachable from a rendering entry point is pure (no store
into non-fresh objects, no memoisation) and (b) model classes hold *links and primary values
only*: no attribute is assigned a value derived from another mutable attribute (a cached copy
that an in-place edit would leave stale); the derived views the renderers use are properties."""
from __future__ import annotations

import ast
from typing import Dict, List, Set, Tuple

from ..core import Collector, guarded, norm, Unrecognised
from ..pyindex import walk_no_nested, FuncInfo, access_path
from .common import purity_obligations, get_eff

EXPLANATION = (
    'Purity: for every rendering entry point (Database.sql/dbml, SQLObject.sql, DBMLObject.dbml, every renderer '
    'render/render_db classmethod, every registered render function) the interprocedural mutation summary '
    '(effects engine: freshness abstraction, call-graph fixpoint, property getters/setters and registry dispatch as '
    'edges) is empty, and no function on the render call-graph closure carries a memoising decorator. '
    'No derived state: every attribute store in the model classes (pydbml._classes.*, pydbml.database) is classified; '
    'a stored value that reads another attribute of a model object, or that combines constructor parameters which '
    'are stored as attributes of their own, is a stale-able copy and is refuted. The computed views are checked to be '
    'properties.  Under (a)+(b) a rendering is a function of the current object graph only.')
RULE_TEXT = 'one obligation per render entry (purity), per attribute store site in model classes (derived-state), per computed view'
ASSUMPTIONS = [
    'decides purity and absence of cached/derived state, not textual equality with an independently rebuilt model',
    'call resolution is name-based where receiver types are unknown (over-approximation of the closure)',
]
ENGINES = ['pyindex', 'effects', 'paths']
TECHNIQUE = 'static analysis (ast): interprocedural mutation/freshness summaries over the render call-graph closure; attribute-store classification; link obligations (rendered object holds the edited object); presence tests vs constructor normalisation'

MODEL_MODULE_PREFIXES = ('pydbml._classes.', 'pydbml.database')
COMPUTED_VIEWS = [('pydbml._classes.index', 'Index', 'subject_names'), ('pydbml._classes.reference', 'Reference', 'table1'),
                  ('pydbml._classes.reference', 'Reference', 'table2'), ('pydbml._classes.table', 'Table', 'full_name'),
                  ('pydbml._classes.column', 'Column', 'database'), ('pydbml._classes.reference', 'Reference', 'inline'),
                  ('pydbml._classes.reference', 'Reference', 'join_table')]


def attr_reads(expr: ast.AST) -> List[ast.Attribute]:
    """data-attribute loads inside expr (function position of calls excluded)."""
    call_funcs = {id(n.func) for n in ast.walk(expr) if isinstance(n, ast.Call)}
    return [n for n in ast.walk(expr) if isinstance(n, ast.Attribute) and isinstance(n.ctx, ast.Load)
            and id(n) not in call_funcs]


def derived_state(ctx, col: Collector, rule: str):
    idx = ctx.idx
    nstores = 0
    for ci in idx.classes.values():
        if not ci.module.startswith(MODEL_MODULE_PREFIXES):
            continue
        init = ci.methods.get('__init__')
        # parameters of __init__ that are stored as attributes of their own: param -> attr
        own_attr: Dict[str, str] = {}
        if init is not None:
            iparams = {a.arg for a in init.node.args.args[1:]} | {a.arg for a in init.node.args.kwonlyargs}
            for n in walk_no_nested(init.node):
                if isinstance(n, (ast.Assign, ast.AnnAssign)):
                    tgts = n.targets if isinstance(n, ast.Assign) else [n.target]
                    val = n.value
                    if val is None:
                        continue
                    for t in tgts:
                        if isinstance(t, ast.Attribute) and isinstance(t.value, ast.Name) and t.value.id == 'self':
                            names = {x.id for x in ast.walk(val) if isinstance(x, ast.Name) and x.id in iparams}
                            if len(names) == 1:
                                own_attr.setdefault(next(iter(names)), t.attr)
        funcs = list(ci.methods.values()) + list(ci.props.values()) + list(ci.setters.values())
        for fi in funcs:
            for n in walk_no_nested(fi.node):
                stores = []
                if isinstance(n, ast.Assign):
                    stores = [(t, n.value) for t in n.targets]
                elif isinstance(n, ast.AnnAssign) and n.value is not None:
                    stores = [(n.target, n.value)]
                elif isinstance(n, ast.AugAssign):
                    stores = [(n.target, n.value)]
                for t, v in stores:
                    if not isinstance(t, ast.Attribute):
                        continue
                    nstores += 1
                    cons = f'{ci.name}.{fi.node.name}:{norm(t)}={norm(v)}'
                    reads = [r for r in attr_reads(v)]
                    # reading the attribute being assigned itself (x.a = x.a or ...) is not a copy
                    reads = [r for r in reads if not (r.attr == t.attr and norm(r.value) == norm(t.value))]
                    # class-level constants (cls.X / Class.X) are not model state
                    reads = [r for r in reads if not (isinstance(r.value, ast.Name) and r.value.id in ('cls',))]
                    if isinstance(n, ast.AugAssign) and isinstance(t.value, ast.Name) and not isinstance(v, ast.Constant) and not reads:
                        names = {x.id for x in ast.walk(v) if isinstance(x, ast.Name)}
                        if names:
                            reads = reads  # counters fed from locals are judged below via params
                    if reads:
                        col.bad(rule, cons, f'{ci.name}.{fi.node.name} stores into `{norm(t)}` a value computed from '
                                f'`{norm(reads[0])}`: a copy that goes stale when that attribute is edited later '
                                f'(derived state must be computed on read)', node=n, file=fi.file)
                        continue
                    if isinstance(n, ast.AugAssign) and isinstance(t.value, ast.Name) and t.value.id == 'self':
                        col.bad(rule, cons, f'{ci.name}.{fi.node.name} maintains the counter/accumulator `{norm(t)}` '
                                f'incrementally: it is not recomputed when the underlying objects are edited in place',
                                node=n, file=fi.file)
                        continue
                    if fi.node.name == '__init__' and isinstance(t.value, ast.Name) and t.value.id == 'self':
                        pnames = {x.id for x in ast.walk(v) if isinstance(x, ast.Name) and x.id in own_attr}
                        foreign = sorted(p for p in pnames if own_attr[p] != t.attr)
                        if foreign:
                            col.bad(rule, cons, f'{ci.name}.__init__ computes `{norm(t)}` from parameter `{foreign[0]}`, '
                                    f'which is stored as the separately editable attribute `{own_attr[foreign[0]]}`: '
                                    f'editing that attribute later leaves `{t.attr}` stale', node=n, file=fi.file)
                            continue
                    col.ok(rule, cons, 'store of a primary value / link', node=n, file=fi.file)
    col.floor(rule, 'attribute stores in model classes', nstores, 70)
    col.stat('model_attribute_stores', nstores)


def run(ctx, col: Collector):
    guarded(col, 'C10-pure', 'render-closure', lambda: purity_obligations(ctx, col, 'C10-pure'))
    guarded(col, 'C10-derived', 'model-classes', lambda: derived_state(ctx, col, 'C10-derived'))

    def views():
        idx = ctx.idx
        for mod, cls, name in COMPUTED_VIEWS:
            ci = idx.cls(mod, cls)
            p = idx.lookup_prop(ci.id, name)
            col.check(p is not None, 'C10-views', f'{cls}.{name}:property',
                      f'{cls}.{name} is computed on every read (property)',
                      f'{cls}.{name} is no longer a property: a stored value would not follow later edits',
                      node=ci.node, file=ci.module.replace('.', '/') + '.py')
            if p is not None:
                # the getter must not return a stored private copy of itself (memo): `return self._name` only
                rets = [n for n in walk_no_nested(p.node) if isinstance(n, ast.Return) and n.value is not None]
                reads = set()
                for r in rets:
                    for a in ast.walk(r.value):
                        if isinstance(a, ast.Attribute) and isinstance(a.value, ast.Name) and a.value.id == 'self':
                            reads.add(a.attr)
                col.check(bool(rets), 'C10-views', f'{cls}.{name}:returns', 'getter returns a computed value',
                          f'{cls}.{name} getter has no return', node=p.node, file=p.file)
    guarded(col, 'C10-views', 'computed-views', views)

    def stale_indexes():
        """A rendering is a function of the current object graph: nothing on the render closure may consult an index that is keyed by attribute values
        taken when an element was added (such a key is not updated by an in-place rename, see C09-derived-index)."""
        from .common import get_cg, render_entries
        idx = ctx.idx
        db = idx.cls('pydbml.database', 'Database')
        derived = {}
        from .common import expanded
        for m0 in db.methods.values():
            if not isinstance(m0.node, ast.FunctionDef):
                continue
            m = expanded(ctx, m0.module, m0.qualname)
            params = {a.arg for a in m.node.args.args[1:]}
            for n in walk_no_nested(m.node):
                if isinstance(n, ast.Assign) and isinstance(n.targets[0], ast.Subscript):
                    t = n.targets[0]
                    ap = access_path(t.value)
                    if ap and ap.startswith('self.') and any(isinstance(x, ast.Attribute) and isinstance(x.value, ast.Name) and x.value.id in params
                                                             for x in ast.walk(t.slice)):
                        derived.setdefault(ap[5:], norm(t.slice))
        col.floor('C10-views', 'indexes of Database keyed by element attributes', len(derived), 1)
        cg = get_cg(ctx)
        closure = cg.closure(e.id for e in render_entries(ctx))
        nread = 0
        for fid in sorted(closure):
            fi = idx.funcs[fid]
            if fi.cls == db.id and fi.qualname.split('.')[-1] in ('__getitem__', '__contains__'):
                continue
            for x in ast.walk(fi.node):
                if isinstance(x, ast.Attribute) and x.attr in derived and isinstance(x.ctx, ast.Load):
                    nread += 1
                    col.bad('C10-views', f'{fi.qualname}:reads-index:{x.attr}', f'{fi.qualname} (reachable from a rendering entry point) consults Database.{x.attr}, which is '
                            f'keyed by `{derived[x.attr]}` as it was when the element was added and is not re-keyed by in-place edits: after a rename the rendering '
                            f'differs from that of a freshly built model', node=x, file=fi.file)
        if nread == 0:
            col.ok('C10-views', 'render-closure:no-stale-index', f'none of the {len(closure)} render-reachable functions reads {sorted(derived)}', node=db.node,
                   file='pydbml/database.py')
    guarded(col, 'C10-views', 'stale-indexes', stale_indexes)

    def links():
        # "indexes, references, enum-typed columns, table groups ... all show the new names": the element that is rendered holds the object that was edited,
        # not a copy or a spelled name.  These are the link obligations of C05 (enum match by schema and name, linked object taken from the owner's collection).
        sub = ctx.sub('c05', col.prop)
        n = 0
        for o in sub.obs:
            if o.rule in ('C05-enum', 'C05-identity') and not o.construct.startswith('floor:'):
                n += 1
                col.obs.append(type(o)(col.prop, 'C10-links', o.construct, o.status, o.msg, o.file, o.line, o.extra))
        col.floor('C10-links', 'link obligations', n, 8)
    guarded(col, 'C10-links', 'links', links)

    def round_trips():
        """A renderer that holds an element X and reads `X.note.parent` (down to a sub-object and back up through its back-pointer) names the LAST holder the sub-object
        was assigned to, not X: after `a.note = n; b.note = n` both columns are rendered as b.  The (attribute, back-pointer) pairs are read off the model classes:
        a method that stores a value in `self.<a>` and sets `<value>.<b> = self`."""
        from .common import expanded
        idx = ctx.idx
        pairs: Dict[Tuple[str, str], str] = {}
        for ci in idx.classes.values():
            if not ci.module.startswith(('pydbml._classes', 'pydbml.database')):
                continue
            for m in list(ci.methods.values()) + [s_ for s_ in getattr(ci, 'setters', {}).values()]:
                if not isinstance(m.node, ast.FunctionDef):
                    continue
                backs = [(n.targets[0].value.id, n.targets[0].attr) for n in ast.walk(m.node) if isinstance(n, ast.Assign) and len(n.targets) == 1
                         and isinstance(n.targets[0], ast.Attribute) and isinstance(n.targets[0].value, ast.Name) and isinstance(n.value, ast.Name) and n.value.id == 'self']
                stores = [(n.value.id, n.targets[0].attr) for n in ast.walk(m.node) if isinstance(n, ast.Assign) and len(n.targets) == 1
                          and isinstance(n.targets[0], ast.Attribute) and isinstance(n.targets[0].value, ast.Name) and n.targets[0].value.id == 'self'
                          and isinstance(n.value, ast.Name)]
                for v, b in backs:
                    for v2, a in stores:
                        if v == v2:
                            pairs[(a.lstrip('_'), b)] = f'{ci.name}.{m.node.name}'
        col.stat('sub_object_back_pointers', sorted(f'.{a} <-> .{b} ({w})' for (a, b), w in pairs.items()))
        col.floor('C10-links', 'sub-object/back-pointer pairs read off the model classes', len(pairs), 1)
        hits = 0
        n_fn = 0
        for fi in idx.all_funcs():
            if not fi.module.startswith('pydbml.renderer.') or not isinstance(fi.node, ast.FunctionDef):
                continue
            n_fn += 1
            fx = expanded(ctx, fi.module, fi.qualname)
            for n in ast.walk(fx.node):
                if isinstance(n, ast.Attribute) and isinstance(n.value, ast.Attribute) and (n.value.attr, n.attr) in pairs \
                        and isinstance(n.value.value, (ast.Name, ast.Attribute, ast.Subscript)):
                    hits += 1
                    holder = norm(n.value.value)
                    col.bad('C10-links', f'{fi.qualname}:{n.value.attr}.{n.attr}', f'{fi.qualname} reads `{norm(n)[:60]}` - from `{holder}` down to its {n.value.attr} and back '
                            f'through the back-pointer `{n.attr}` ({pairs[(n.value.attr, n.attr)]} sets it): that is the last object the {n.value.attr} was assigned to, not '
                            f'necessarily `{holder}`; after the same {n.value.attr} object is given to two elements the rendering names the wrong one', node=n, file=fi.file)
                    break
        col.check(hits == 0, 'C10-links', 'renderers:no-round-trip-through-back-pointers', f'no renderer ({n_fn} functions, helpers read in place) identifies the element '
                  f'it renders through a sub-object\'s back-pointer', f'{hits} renderers go down to a sub-object and back up through its back-pointer')
    guarded(col, 'C10-links', 'round-trips', round_trips)

    def presence_tests():
        # A fresh build maps an empty value to None (`self.name = name if name else None`), an in-place edit (`ref.name = ''`) does not: the attribute is a plain
        # one.  Both states mean "not set", so a renderer must ask for the attribute's truth value; `is None` tells them apart and the edited object renders
        # differently from a freshly built one with the same content.
        from .common import get_cg, render_entries
        idx = ctx.idx
        normalised = {}
        for ci in idx.classes.values():
            if not ci.module.startswith('pydbml._classes'):
                continue
            init = ci.methods.get('__init__')
            if init is None:
                continue
            for n in walk_no_nested(init.node):
                if isinstance(n, ast.Assign) and len(n.targets) == 1 and isinstance(n.targets[0], ast.Attribute) and norm(n.targets[0].value) == 'self':
                    v, a = n.value, n.targets[0].attr
                    falsy_to_none = (isinstance(v, ast.IfExp) and isinstance(v.orelse, ast.Constant) and v.orelse.value is None and norm(v.test) == norm(v.body)
                                     and isinstance(v.body, ast.Name)) or \
                        (isinstance(v, ast.BoolOp) and isinstance(v.op, ast.Or) and len(v.values) == 2 and isinstance(v.values[0], ast.Name)
                         and isinstance(v.values[1], ast.Constant) and v.values[1].value is None)
                    if falsy_to_none and a not in ci.setters and a not in ci.props:
                        normalised[(ci.id, a)] = n
        col.floor('C10-presence', 'attributes whose constructor maps an empty value to None', len(normalised), 2)
        cg = get_cg(ctx)
        closure = cg.closure(e.id for e in render_entries(ctx))
        n_tests = 0
        for fid in sorted(closure):
            fi = idx.funcs[fid]
            if not fi.module.startswith('pydbml.renderer') or not isinstance(fi.node, ast.FunctionDef):
                continue
            ptypes = idx.param_types(fi)
            for c in ast.walk(fi.node):
                if not (isinstance(c, ast.Compare) and len(c.ops) == 1 and isinstance(c.ops[0], (ast.Is, ast.IsNot, ast.Eq, ast.NotEq)) and isinstance(c.comparators[0], ast.Constant)
                        and c.comparators[0].value is None and isinstance(c.left, ast.Attribute) and isinstance(c.left.value, ast.Name)):
                    continue
                for cid in ptypes.get(c.left.value.id, set()):
                    hit = next(((k, v) for k, v in normalised.items() if k[1] == c.left.attr and k[0] in {x.id for x in idx.mro(cid)}), None)
                    if hit is None:
                        continue
                    n_tests += 1
                    cname = idx.classes[hit[0][0]].name
                    col.bad('C10-presence', f'{fi.qualname}:{cname}.{c.left.attr}', f'{fi.qualname} decides whether {cname}.{c.left.attr} is set with `{norm(c)}`; the constructor stores '
                            f'None for an empty value but the attribute is plain, so after `obj.{c.left.attr} = \'\'` the rendering differs from that of a freshly built '
                            f'{cname} with the same content (which has None there)', node=c, file=fi.file)
        if n_tests == 0:
            col.ok('C10-presence', 'renderers:truth-tests', f'no renderer distinguishes None from an empty value for {sorted(idx.classes[k[0]].name + "." + k[1] for k in normalised)}',
                   file='pydbml/renderer/base.py')
    guarded(col, 'C10-presence', 'presence-tests', presence_tests)
