"""C07 - malformed text is never accepted: the whole input must be valid DBML.

Decides the structural necessary conditions on the grammar IR (sa/grammar.py) and on the parse
entry: end-of-input anchoring, no exception swallowing, closed vocabularies, keyword-led
alternatives, bracket pairing, delimiter enclosure of free-text matchers, string terminators."""
from __future__ import annotations

import ast
from typing import Dict, List, Optional, Set, Tuple

from ..core import Collector, guarded, acquire_grammar, norm, Unrecognised, AnchorMissing
from ..grammar import G, top_shape, flatten_and, flatten_alt, named_nodes, names_out, walk, GrammarModel
from .. import gtools as gt
from ..pyindex import walk_no_nested
from .common import must_call_before, is_normal_return, paths_of, calls_named

EXPLANATION = (
    'The pyparsing grammar is rebuilt as an IR by abstract evaluation of pydbml/definitions/*.py and _set_syntax (both '
    'option values). On it: the top-level syntax is a repetition of keyword-led alternatives followed only by blank/comment '
    'skippers and is anchored at end of input (StringEnd as last element of the sequence, or parse_string(..., parse_all=True)); '
    'the parse entry returns only after parse_string and build_database and no handler in the package swallows a parse '
    'exception; the closed vocabularies (index types, relation operators, referential actions, booleans, colours) are exactly '
    'the sets named by the sibling Literal[...] annotations / constants / DBML; every alternative of every settings list and of '
    'the top level starts with a closed token (no catch-all), except the property alternative when the option is on; every '
    'opening bracket in a sequence has its mandatory closing bracket later in the same sequence; every unbounded matcher '
    '(SkipTo, CharsNotIn, free Word, original text) is enclosed by delimiter literals; single-character quotes are single-line; '
    'a column requires a name and a type.')
RULE_TEXT = 'one obligation per configuration x (anchor, trailer, top alternative), per vocabulary, per bracket list alternative, per bracket pair, per free-text matcher, per string token'
ASSUMPTIONS = ['pyparsing 3.3 combinator semantics as modelled in sa/grammar.py (copy vs in-place, results names, ErrorStop)',
               'decides necessary structural conditions; does not decide that every malformed document is rejected',
               'changes of `+` into `-` (ErrorStop) and back are not judged']
ENGINES = ['pyindex', 'grammar', 'paths', 'effects']
TECHNIQUE = 'static analysis (ast): abstract evaluation of the grammar definitions into an IR; FIRST-set, length-set, vocabulary, pairing and enclosure rules on the IR; path rules on the parse entry; per-call-state obligations (no shared containers, no memoisation, per-parser grammar copies)'

INDEX_TYPES = {'brin', 'btree', 'gin', 'gist', 'hash', 'spgist'}
REF_ACTIONS = {'no action', 'restrict', 'cascade', 'set null', 'set default'}
BOOLEANS = {'true', 'false', 'null'}
HEX = set('0123456789abcdefABCDEF')
PARSE_EXC = {'Exception', 'BaseException', 'ParseBaseException', 'ParseException', 'ParseSyntaxException', 'ParseFatalException'}

CONTROL_SWALLOW = '''
def parse(self):
    try:
        self._syntax.parse_string(self.source)
    except Exception:
        pass
    return self.database
'''


def gm_of(ctx) -> GrammarModel:
    return ctx.grammar


def where(g: G) -> Dict:
    return {'file': g.file, 'line': g.line}


class _N:
    """Adapter so Collector can take a line from an IR node."""
    def __init__(self, g: G):
        self.lineno = g.line


def literal_annotation(ctx, modname: str, clsname: str, param: str) -> Optional[Set[str]]:
    """Strings of a Literal[...] annotation on a dataclass field or an __init__ parameter."""
    idx = ctx.idx
    ci = idx.cls(modname, clsname)
    ann = ci.class_attr_ann.get(param)
    if ann is None:
        init = ci.methods.get('__init__')
        if init is not None:
            for a in init.node.args.args + init.node.args.kwonlyargs:
                if a.arg == param:
                    ann = a.annotation
    if ann is None:
        return None
    out: Set[str] = set()
    found = False
    for n in ast.walk(ann):
        if isinstance(n, ast.Subscript) and norm(n.value).split('.')[-1] == 'Literal':
            found = True
            elts = n.slice.elts if isinstance(n.slice, ast.Tuple) else [n.slice]
            for e in elts:
                if isinstance(e, ast.Constant) and isinstance(e.value, str):
                    out.add(e.value)
    return out if found else None


def swallowing_handlers(tree: ast.AST) -> List[ast.ExceptHandler]:
    """Handlers that catch a parse-exception superclass (or everything) and have a path that
    does not end in raise."""
    from ..paths import PathEnum
    out = []
    for n in ast.walk(tree):
        if not isinstance(n, ast.Try):
            continue
        for h in n.handlers:
            names: Set[str] = set()
            if h.type is None:
                names.add('BaseException')
            else:
                ts = h.type.elts if isinstance(h.type, ast.Tuple) else [h.type]
                for t in ts:
                    names.add(norm(t).split('.')[-1])
            if not (names & PARSE_EXC):
                continue
            pe = PathEnum(1)
            res = pe.block(h.body, [((), 'normal')])
            if any(status != 'raise' for _, status in res):
                out.append(h)
    return out


def run(ctx, col: Collector):
    idx = ctx.idx
    gm = acquire_grammar(ctx, col, 'C07-grammar')
    def stats():
        col.stat('grammar_nodes', len(gm.reachable()))
        col.stat('grammar_action_nodes', len(gm.action_nodes()))
        col.stat('definition_modules', len(gm.ev.order))
        col.floor('C07-grammar', 'grammar IR nodes', len(gm.reachable()), 600)
        col.floor('C07-grammar', 'definition modules', len(gm.ev.order), 10)
    guarded(col, 'C07-grammar', 'stats', stats)

    # ---------------------------------------------------------------- C07-anchor
    def anchoring():
        pcls = idx.cls('pydbml.parser.parser', 'PyDBMLParser')
        parse = pcls.methods.get('parse')
        if parse is None:
            raise AnchorMissing('PyDBMLParser.parse')
        calls = [n for n in walk_no_nested(parse.node) if isinstance(n, ast.Call) and isinstance(n.func, ast.Attribute)
                 and n.func.attr in ('parse_string', 'parseString', 'search_string', 'searchString', 'scan_string', 'scanString',
                                     'parse_file', 'parseFile', 'transform_string', 'transformString')]
        if len(calls) != 1:
            raise Unrecognised(f'PyDBMLParser.parse contains {len(calls)} pyparsing entry calls', parse.node)
        call = calls[0]
        col.check(call.func.attr in ('parse_string', 'parseString'), 'C07-anchor', 'parse:entry-call',
                  'the text is matched with parse_string (from position 0, one match)',
                  f'PyDBMLParser.parse uses `{call.func.attr}`, which accepts matches anywhere in the text', node=call, file=parse.file)
        col.check(norm(call.func.value) == 'self._syntax', 'C07-anchor', 'parse:receiver',
                  'parse_string is called on self._syntax', f'parse_string is called on `{norm(call.func.value)}`, not on the syntax built by '
                  f'_set_syntax', node=call, file=parse.file)
        # the text argument is the constructor's source, unchanged
        init = pcls.methods.get('__init__')
        src_ok = False
        if call.args and norm(call.args[0]) == 'self.source' and init is not None:
            p = [a.arg for a in init.node.args.args][1]
            for n in walk_no_nested(init.node):
                if isinstance(n, ast.Assign) and len(n.targets) == 1 and norm(n.targets[0]) == 'self.source':
                    src_ok = isinstance(n.value, ast.Name) and n.value.id == p
        col.check(src_ok, 'C07-anchor', 'parse:whole-text', 'parse_string receives the complete source given to the parser',
                  f'parse_string receives `{norm(call.args[0]) if call.args else ""}` which is not the unmodified constructor argument '
                  f'(a slice/strip would hide part of the document from the grammar)', node=call, file=parse.file)
        parse_all = False
        for kw in call.keywords:
            if kw.arg in ('parse_all', 'parseAll'):
                if isinstance(kw.value, ast.Constant):
                    parse_all = bool(kw.value.value)
                else:
                    raise Unrecognised(f'parse_all is not a constant: `{norm(kw.value)}`', call)
        if len(call.args) >= 2:
            if isinstance(call.args[1], ast.Constant):
                parse_all = bool(call.args[1].value)
            else:
                raise Unrecognised('parse_all is not a constant', call)
        for flag in (False, True):
            sh = top_shape(gm.configs[flag])
            tag = f'allow_properties={flag}'
            col.check(sh['end_anchor'] or parse_all, 'C07-anchor', f'{tag}:end-of-input',
                      f'match must reach end of input (StringEnd last={sh["end_anchor"]}, parse_all={parse_all})',
                      f'neither does the top-level syntax end in StringEnd nor is parse_string called with parse_all=True: a document '
                      f'whose tail is not valid DBML is accepted and silently truncated', node=call, file=parse.file)
            col.check(sh['rep'] is not None and len(sh['alts']) >= 6, 'C07-anchor', f'{tag}:top-shape',
                      f'top-level syntax starts with an unbounded repetition of {len(sh["alts"])} element alternatives',
                      'the top-level syntax is not `<elements>[...] + ...`', node=_N(gm.configs[flag]), file=gm.configs[flag].file)
            for i, t in enumerate(sh['trailer']):
                col.check(gt.is_blank_skipper(t), 'C07-anchor', f'{tag}:trailer[{i}]',
                          'what follows the elements can only match blank lines and comments',
                          f'the top-level syntax continues with `{t.label()}` (line {t.line}), which can consume text that is not an '
                          f'element, a comment or a blank line', node=_N(t), file=t.file)
            for a in sh['alts']:
                ft = gt.first_tokens(a)
                openers = [t for t in ft if gt.is_open_token(t)]
                col.check(not openers and bool(ft), 'C07-top', f'{tag}:{a.var or a.label()}:keyword-led',
                          f'alternative starts with closed tokens only ({len(ft)} first tokens)',
                          f'top-level alternative `{a.var}` can start with an open token class '
                          f'({[t.label() for t in openers][:3]}): stray text between elements would be taken as an element',
                          node=_N(a), file=a.file)
        # result only after parse + build
        must_call_before(ctx, col, 'C07-anchor', parse, 'parse-before-return', call.func.attr, is_normal_return)
        must_call_before(ctx, col, 'C07-anchor', parse, 'build-before-return', 'build_database', is_normal_return)
        must_call_before(ctx, col, 'C07-anchor', parse, 'syntax-before-parse', '_set_syntax',
                         lambda ev: bool(calls_named(ev, call.func.attr)))
    guarded(col, 'C07-anchor', 'anchoring', anchoring)

    def swallow():
        n = 0
        for mod in idx.modules.values():
            for h in swallowing_handlers(mod.tree):
                n += 1
                col.bad('C07-swallow', f'{mod.name}:except:{norm(h.type) if h.type is not None else "bare"}',
                        f'{mod.relpath}:{h.lineno} catches a parse exception (or everything) and continues: a syntax error would be '
                        f'swallowed and a partial result returned', node=h, file=mod.relpath)
        ctl = swallowing_handlers(ast.parse(CONTROL_SWALLOW))
        if len(ctl) != 1:
            col.unk('C07-swallow', 'control', 'positive control for the swallow detector did not match')
        col.check(n == 0, 'C07-swallow', 'package:no-swallowing-handler',
                  f'no except clause in {len(idx.modules)} modules catches a parse exception without re-raising (positive control matched)',
                  f'{n} swallowing handlers')
    guarded(col, 'C07-swallow', 'handlers', swallow)

    # ---------------------------------------------------------------- C07-vocab
    glued: Set[tuple] = set()

    def vocab_texts(nodes: List[G]) -> Tuple[Set[str], bool, Optional[G]]:
        texts: Set[str] = set()
        all_caseless = True
        first = None
        for n in nodes:
            v = gt.vocab_of(n)
            if v is None:
                raise Unrecognised(f'vocabulary slot is not an alternative of literals: {n.label()} at {n.file}:{n.line}')
            for t, cl, node in v:
                texts.add(t)
                all_caseless = all_caseless and cl
                first = first or node
                if node.kind == 'combine' and not node.a.get('adjacent', True) and (node.module, node.line, t) not in glued:
                    glued.add((node.module, node.line, t))
                    col.bad('C07-vocab', f'phrase:{t!r}@{node.module.split(".")[-1]}', f'the keyword phrase {t!r} ({node.file}:{node.line}) is a Combine(..., adjacent=False) of its '
                            f'words: white space between the words is optional, so the run-together spelling {t.replace(" ", "")!r} - not a DBML keyword - is accepted and '
                            f'silently read as {t!r}', node=_N(node), file=node.file)
        return texts, all_caseless, first

    def vocabularies():
        # index types
        nodes = [x for g in gm.nodes_with_action('parse_index_settings') for x in named_nodes(g, 'type')]
        col.floor('C07-vocab', 'index type alternatives', len(nodes), 6)
        texts, _, first = vocab_texts(nodes)
        ann1 = literal_annotation(ctx, 'pydbml.parser.blueprints', 'IndexBlueprint', 'type')
        ann2 = literal_annotation(ctx, 'pydbml._classes.index', 'Index', 'type')
        if ann1 is None or ann2 is None:
            raise Unrecognised('Literal[...] annotation of the index type not found')
        for nm, oracle in (('IndexBlueprint.type annotation', ann1), ('Index.type annotation', ann2), ('PostgreSQL index types', INDEX_TYPES)):
            col.check(texts == oracle, 'C07-vocab', f'index-type:{nm}', f'grammar accepts exactly {sorted(texts)}',
                      f'index type vocabulary {sorted(texts)} differs from {nm} {sorted(oracle)}: extra={sorted(texts - oracle)} '
                      f'missing={sorted(oracle - texts)}', node=_N(first) if first else None, file=first.file if first else '')
        # relation operators
        from .c18 import const_names
        consts = const_names(ctx)        # the relation-kind constants (spelled with the operator characters)
        for fname in ('parse_ref', 'parse_inline_relation'):
            nodes = [x for g in gm.nodes_with_action(fname) for x in named_nodes(g, 'type')]
            col.floor('C07-vocab', f'{fname} operator slot', len(nodes), 1)
            texts, _, first = vocab_texts(nodes)
            for nm, oracle in (('constants.py', set(consts.values())),
                               ('ReferenceBlueprint.type annotation', literal_annotation(ctx, 'pydbml.parser.blueprints', 'ReferenceBlueprint', 'type')),
                               ('Reference.type annotation', literal_annotation(ctx, 'pydbml._classes.reference', 'Reference', 'type'))):
                if oracle is None:
                    raise Unrecognised(f'{nm} not found')
                col.check(texts == oracle, 'C07-vocab', f'relation:{fname}:{nm}', f'operators accepted: {sorted(texts)}',
                          f'relation operators accepted by the grammar {sorted(texts)} differ from {nm} {sorted(oracle)}',
                          node=_N(first) if first else None, file=first.file if first else '')
        # referential actions
        for nm in ('update', 'delete'):
            slots = [x for g in gm.nodes_with_action('parse_ref_settings') for x in named_nodes(g, nm)]
            col.floor('C07-vocab', f'{nm} action slot', len(slots), 1)
            for s in slots:
                seq = [k for k in flatten_and(s) if k.kind != 'suppress' and not gt.is_blank_skipper(k)]
                if len(seq) != 1:
                    raise Unrecognised(f'`{nm}:` setting is not <keyword> <skipper> <action alternatives> at {s.file}:{s.line}')
                texts, cl, first = vocab_texts([seq[0]])
                col.check(texts == REF_ACTIONS, 'C07-vocab', f'ref-action:{nm}', f'{nm} actions accepted: {sorted(texts)}',
                          f'`{nm}:` accepts {sorted(texts)}; DBML defines exactly {sorted(REF_ACTIONS)}', node=_N(s), file=s.file)
        # default-value alternatives: boolean words
        defaults = [x for g in gm.nodes_with_action('parse_column_settings') for x in named_nodes(g, 'default')]
        col.floor('C07-vocab', 'default slots', len(defaults), 2)
        for d in defaults:
            seq = [k for k in flatten_and(d) if k.kind not in ('suppress', 'errorstop') and not gt.is_blank_skipper(k)]
            if len(seq) != 1 or seq[0].kind not in ('first', 'or'):
                raise Unrecognised(f'default setting is not <keyword> <value alternatives> at {d.file}:{d.line}')
            kinds = []
            for alt in flatten_alt(seq[0], ('first', 'or')):
                v = gt.vocab_of(alt)
                if v is not None:
                    texts = {t.lower() for t, _, _ in v}
                    col.check(texts == BOOLEANS and all(cl for _, cl, _ in v), 'C07-vocab', f'default:boolean-words@{d.module.split(".")[-1]}:{d.line}',
                              'bare-word defaults are exactly true/false/null (any case)',
                              f'bare-word default values accepted: {sorted(t for t, _, _ in v)} (caseless={all(cl for _, cl, _ in v)}); DBML allows exactly true, false, null',
                              node=_N(alt), file=alt.file)
                    kinds.append('bool')
                else:
                    ft = gt.first_tokens(alt)
                    kinds.append('/'.join(sorted({t.kind for t in ft})))
            col.check('bool' in kinds and len(kinds) == 4, 'C07-vocab', f'default:kinds@{d.module.split(".")[-1]}:{d.line}',
                      f'default value kinds: {kinds}', f'default value alternatives are {kinds}; expected string, expression, boolean word, number',
                      node=_N(d), file=d.file)
        # colours
        colour_slots = [('header_color', 'parse_table_settings'), ('color', 'parse_table_group')]
        for nm, fname in colour_slots:
            slots = [x for g in gm.nodes_with_action(fname) for x in named_nodes(g, nm)]
            col.floor('C07-vocab', f'{nm} slot', len(slots), 1)
            for s in slots:
                ls = gt.lengths(s)
                cs = gt.charset(s)
                ft = gt.first_tokens(s)
                col.check(ls == frozenset({4, 7}), 'C07-vocab', f'colour:{nm}:length',
                          'colour token is `#` plus exactly 3 or 6 characters',
                          f'colour token `{nm}` accepts lengths {sorted(ls) if ls else "unbounded"} (with `#`); only #rgb and #rrggbb are colours',
                          node=_N(s), file=s.file)
                col.check(cs is not None and cs - {'#'} <= HEX and all(t.kind == 'lit' and t.a['text'] == '#' for t in ft), 'C07-vocab',
                          f'colour:{nm}:charset', 'colour token is `#` followed by hexadecimal digits only',
                          f'colour token `{nm}` may contain {sorted((cs or set()) - HEX - {"#"})[:8]}', node=_N(s), file=s.file)
                col.check(not gt.inner_ws_allowed(s), 'C07-vocab', f'colour:{nm}:contiguous', 'no whitespace inside a colour token',
                          f'whitespace may be skipped inside the colour token `{nm}` (`# f f f` would be a colour)', node=_N(s), file=s.file)
    guarded(col, 'C07-vocab', 'vocabularies', vocabularies)

    # ---------------------------------------------------------------- C07-settings
    def settings_lists():
        for flag in (False, True):
            lists = gt.bracket_lists(gm.reachable(flag))
            col.floor('C07-settings', f'bracket lists (allow_properties={flag})', len(lists), 6)
            for n, seq in lists:
                lid = f'{n.module.split(".")[-1]}:{n.var or "list@" + str(n.line)}'
                elems = gt.list_elements(seq)
                if not elems:
                    raise Unrecognised(f'bracket list at {n.file}:{n.line} has no element position')
                for el in elems:
                    flat = gt.alternatives_of(el)
                    for a in flat:
                        ft = [t for t in gt.first_tokens(a)]
                        openers = [t for t in ft if gt.is_open_token(t)]
                        cons = f'allow_properties={flag}:{lid}:{a.name or a.var or a.label()}@{a.line}'
                        if not openers:
                            col.ok('C07-settings', cons, 'alternative is keyword-led', node=_N(a), file=a.file)
                        elif flag and names_out(a) == {'property'}:
                            col.ok('C07-settings', cons, 'the open alternative is the arbitrary-property form (option on)', node=_N(a), file=a.file)
                        else:
                            col.bad('C07-settings', cons, f'settings list `{lid}` has an alternative that starts with an open token class '
                                    f'({[t.label() for t in openers][:3]}): an unknown setting would be accepted instead of raising a syntax error',
                                    node=_N(a), file=a.file)
    guarded(col, 'C07-settings', 'settings-lists', settings_lists)

    def property_form_off():
        # `key: 'value'` is an unknown construct unless arbitrary properties are enabled (rule shared with C15)
        sub = ctx.sub('c15', col.prop)
        n = 0
        for o in sub.obs:
            if o.rule == 'C15-select' and o.construct.startswith('allow_properties=False'):
                n += 1
                col.obs.append(type(o)(col.prop, 'C07-settings', 'property-form:' + o.construct, o.status, o.msg, o.file, o.line, o.extra))
        col.floor('C07-settings', 'property-form obligations (option off)', n, 1)
    guarded(col, 'C07-settings', 'property-form-off', property_form_off)

    # ---------------------------------------------------------------- C07-pair
    def pairing():
        npairs = 0
        seen: Set[Tuple[int, int]] = set()
        for n in gm.reachable():
            if n.kind != 'and':
                continue
            seq = flatten_and(n)
            for i, x in enumerate(seq):
                t = gt.lit_of(x)
                if t in gt.OPENERS:
                    key = (x.uid, len(seq))
                    if key in seen:
                        continue
                    close = gt.OPENERS[t]
                    later = [y for y in seq[i + 1:] if gt.lit_of(y) == close]
                    if not later:
                        # the sequence may be a prefix of a longer flattened sequence; judged there
                        continue
                    seen.add(key)
                    npairs += 1
                    col.ok('C07-pair', f'{n.module.split(".")[-1]}:{n.var or "seq@" + str(n.line)}:{t}{close}',
                           f'`{t}` is followed by a mandatory `{close}` in the same sequence', node=_N(x), file=x.file)
        # every opener literal must have been paired in some sequence
        openers: Dict[int, G] = {}
        for n in gm.reachable():
            if n.kind == 'lit' and n.a['text'] in gt.OPENERS:
                openers[n.uid] = n
        paired = {k[0] for k in seen}
        # suppress(lit) wrappers: collect uids of literals inside paired wrappers
        for n in gm.reachable():
            if n.uid in paired and n.kind == 'suppress':
                for y in walk(n):
                    paired.add(y.uid)
        for uid, n in openers.items():
            wrapped = False
            if uid not in paired:
                # literal may be reached only through a suppress wrapper that was paired
                for w in gm.reachable():
                    if w.kind == 'suppress' and w.uid in paired and any(y.uid == uid for y in walk(w)):
                        wrapped = True
                if not wrapped:
                    col.bad('C07-pair', f'{n.module.split(".")[-1]}:{n.a["text"]}@unpaired:{n.line}',
                            f'opening `{n.a["text"]}` at {n.file}:{n.line} has no mandatory closing `{gt.OPENERS[n.a["text"]]}` later in its sequence: '
                            f'a missing closing bracket would be accepted', node=_N(n), file=n.file)
        col.floor('C07-pair', 'bracket pairs', npairs, 14)
    guarded(col, 'C07-pair', 'bracket-pairs', pairing)

    # ---------------------------------------------------------------- C07-freetext
    def freetext():
        WS = set(' \t\r\n')

        def is_free(g: G) -> bool:
            if g.kind == 'regex' and gt.comment_forms(g) is not None:
                comment_regexes.add(g.uid)
                return False       # a comment token written as a regular expression: judged below
            if g.kind in ('skipto', 'regex'):
                return True
            if g.kind == 'charsnotin':
                return True
            if g.kind == 'word':
                return bool((g.a['init'] | g.a['body']) & WS)
            return False
        found: Dict[int, Tuple[G, bool]] = {}
        comment_regexes: Set[int] = set()
        memo: Set[Tuple[int, bool, bool]] = set()

        def rec(g: G, opened: bool, closed: bool, depth: int = 0):
            key = (g.uid, opened, closed)
            if key in memo or depth > 200:
                return
            memo.add(key)
            if is_free(g):
                ok = opened and (closed or g.kind == 'skipto')
                prev = found.get(g.uid)
                found[g.uid] = (g, ok and (prev[1] if prev else True))
                return
            if g.kind == 'quoted':
                return
            if g.kind == 'and':
                seq = flatten_and(g)
                for i, x in enumerate(seq):
                    o = opened or any(gt.lit_of(y) not in (None, '') for y in seq[:i])
                    c = closed or any(gt.lit_of(y) not in (None, '') for y in seq[i + 1:])
                    rec(x, o, c, depth + 1)
                return
            for k in g.kids:
                rec(k, opened, closed, depth + 1)
        for flag in (False, True):
            rec(gm.configs[flag], False, False)
        # (a comment token written as one regular expression stands for the two unbounded matchers of the hand-written form)
        col.floor('C07-freetext', 'unbounded matchers', len(found) + 2 * len(comment_regexes), 4)
        for g, ok in found.values():
            cons = f'{g.module.split(".")[-1]}:{g.kind}@{g.line}'
            col.check(ok, 'C07-freetext', cons, f'{g.kind} is enclosed by delimiter literals on every route from the top-level syntax',
                      f'unbounded matcher `{g.kind}` at {g.file}:{g.line} is reachable without an opening (and closing) delimiter literal in its '
                      f'sequence: arbitrary text would be consumed silently', node=_N(g), file=g.file)
    guarded(col, 'C07-freetext', 'free-text', freetext)

    def comments():
        # a `//` comment ends at the end of its line, whatever form the token is written in
        toks = []
        seen = set()
        for g in gm.reachable():
            if g.kind in ('first', 'or', 'regex', 'and') and g.uid not in seen:
                f = gt.comment_forms(g)
                if f is not None and (g.kind != 'and'):
                    seen.add(g.uid)
                    toks.append((g, f))
        col.floor('C07-freetext', 'comment tokens', len(toks), 1)
        done = set()
        for g, forms in toks:
            key = (g.module, g.line, tuple(forms))
            if key in done:
                continue
            done.add(key)
            spans = [f for f in forms if f[0] == 'line' and f[1]]
            col.check(not spans, 'C07-freetext', f'comment-token:{g.module.split(".")[-1]}:{g.var or g.kind}@{g.line}:line-comment-ends-at-line-end',
                      'a `//` comment cannot run past the end of its line',
                      f'the comment token {g.var or g.label()} ({g.file}:{g.line}) lets a `//` comment continue over a line break (e.g. a comment line ending '
                      f'in a backslash): the following line - whatever it contains - is swallowed as comment text', node=_N(g), file=g.file)
            col.check({f[0] for f in forms} == {'line', 'block'}, 'C07-freetext', f'comment-token:{g.module.split(".")[-1]}:{g.var or g.kind}@{g.line}:forms',
                      'comment token = // line comment | /* block comment */', f'comment token accepts forms {sorted({f[0] for f in forms})}', node=_N(g), file=g.file)
    guarded(col, 'C07-freetext', 'comment-tokens', comments)

    # ---------------------------------------------------------------- C07-strings
    def strings():
        qs = [g for g in gm.reachable() if g.kind == 'quoted']
        col.floor('C07-strings', 'quoted-string tokens', len(qs), 4)
        seen = set()
        for q in qs:
            key = (q.a['quote'], q.a['end'], q.a['multiline'], q.module, q.line)
            if key in seen:
                continue
            seen.add(key)
            cons = f'{q.module.split(".")[-1]}:quoted:{q.a["quote"]}@{q.line}'
            col.check(q.a['end'] == q.a['quote'], 'C07-strings', cons + ':terminator', 'string token ends with its own quote',
                      f'string token {q.a["quote"]}...{q.a["end"]} uses a different end quote', node=_N(q), file=q.file)
            col.check((not q.a['multiline']) or len(q.a['quote']) >= 3, 'C07-strings', cons + ':single-line',
                      'single-character quotes do not span lines (an unterminated string cannot run on)',
                      f'string token quoted with {q.a["quote"]!r} is multiline: an unterminated string swallows the following lines up to the '
                      f'next quote', node=_N(q), file=q.file)
        # the styles of ONE string token agree on the escape character: if `'..'` and the triple-quoted style treat a backslash as an escape but `".."` does not, a literal
        # that ends in `\"` closes early instead of being unterminated, and the rest of the line is read as something else
        sl = gm.var('generic', 'string_literal')
        from ..grammar import flatten_alt
        styles = [a for a in flatten_alt(sl, ('first', 'or')) if a.kind == 'quoted']
        escs = {a.a['quote']: a.a.get('esc') for a in styles}
        if len(styles) >= 2:
            majority = max(set(escs.values()), key=lambda v: sum(1 for x in escs.values() if x == v))
            for qv, ev_ in sorted(escs.items()):
                col.check(ev_ == majority, 'C07-strings', f'string_literal:{qv}:escape-agrees', f'style {qv} uses the escape character {majority!r} like its siblings',
                          f'the {qv}..{qv} style of the string token has escape character {ev_!r} while its sibling styles use {majority!r}: a backslash before the closing '
                          f'{qv} does not escape it, so a literal that the other styles would find unterminated is accepted and the rest of the line is parsed as '
                          f'settings' + (' (an unknown keyword argument is ignored by pyparsing: check the spelling of esc_char)' if ev_ is None else ''),
                          node=_N(sl), file=sl.file)
        # a column needs a name and a type
        cols = gm.nodes_with_action('parse_column')
        col.floor('C07-strings', 'column rules', len(cols), 2)
        for c in cols:
            for nm in ('name', 'type'):
                lo, hi = gt.mult(c, nm)
                col.check((lo, hi) == (1, 1), 'C07-strings', f'column:{c.var or c.line}:{nm}', f'a column has exactly one {nm}',
                          f'column rule `{c.var}` matches its `{nm}` between {lo} and {hi if hi < gt.INF else "many"} times: a column without a '
                          f'{nm} would be accepted', node=_N(c), file=c.file)
    guarded(col, 'C07-strings', 'strings', strings)

    def leaks():
        # "No ... fragment of a rejected document leaks into a returned result": elements matched before the error are handed to the parser object of that
        # call and die with it.  That needs the collecting state to be per call - no class-level or module-level container is written while parsing
        # (obligations shared with C11-shared), nothing on the way is memoised (C11-nondet), the collecting actions sit on per-parser copies of the grammar (C11-copy)
        # and the entry points create a new parser per call (C11-fresh).
        sub = ctx.sub('c11', col.prop)
        n = 0
        for o in sub.obs:
            if o.rule in ('C11-shared', 'C11-fresh', 'C11-nondet', 'C11-copy') and not o.construct.startswith('floor:'):
                n += 1
                col.obs.append(type(o)(col.prop, 'C07-leak', o.construct, o.status, o.msg, o.file, o.line, o.extra))
        col.floor('C07-leak', 'per-call state obligations', n, 4)
    guarded(col, 'C07-leak', 'leaks', leaks)
