"""C16 - element and database renderings agree and use the configured renderers."""
from __future__ import annotations

import ast
from typing import Dict, List, Optional, Set

from ..core import Collector, guarded, norm, Unrecognised, AnchorMissing
from ..pyindex import walk_no_nested, FuncInfo, ClassInfo, access_path
from ..paths import function_paths
from ..cond import term, conjuncts
from .common import purity_obligations, renderer_classes

EXPLANATION = (
    'Flow of the configured renderer classes: Database.__init__ stores each renderer parameter, Database.sql/dbml call '
    'render_db on the attribute of the same language (not crossed, not a hard-coded default); SQLObject.sql / '
    'DBMLObject.dbml take the renderer from the owning database exactly on the paths where a database is present and '
    'the default class of the same language otherwise (branch polarity by path enumeration); Column.database goes '
    'through its table. Registry: BaseRenderer.render dispatches on type(model) with a fallback that returns the empty '
    'string; every concrete renderer owns a fresh registry; every module that registers handlers is imported by the '
    "package __init__ that also defines/imports the renderer class. Composition: render_db is a separator join of "
    'cls.render(item) (dispatch through cls, no post-processing) over the database collections, each read once. '
    'Purity of every rendering entry point (shared with C10).')
RULE_TEXT = 'obligations per renderer property, per dispatch path, per renderer class, per registering module, per render_db collection, per render entry'
ASSUMPTIONS = [
    'decides wiring, dispatch polarity, registry shape, composition shape and purity - not text equality under arbitrary custom renderers',
]
ENGINES = ['pyindex', 'paths', 'effects', 'specialise']
TECHNIQUE = 'static analysis (ast): path enumeration of the dispatch properties, registry/import-graph reachability, composition-shape and purity rules; constant-infeasible path pruning on helper-expanded dispatch properties'

LANG = {'sql': 'sql_renderer', 'dbml': 'dbml_renderer'}


def run(ctx, col: Collector):
    idx = ctx.idx
    db = None

    # ------------------------------------------------------------------ C16-a: Database wiring
    def flow():
        db = idx.cls('pydbml.database', 'Database')
        init = idx.lookup_method(db.id, '__init__')
        stored: Dict[str, str] = {}   # attr -> param
        for n in walk_no_nested(init.node):
            if isinstance(n, ast.Assign) and len(n.targets) == 1 and isinstance(n.targets[0], ast.Attribute) \
                    and isinstance(n.targets[0].value, ast.Name) and n.targets[0].value.id == 'self' \
                    and isinstance(n.value, ast.Name):
                stored[n.targets[0].attr] = n.value.id
        for lang, param in LANG.items():
            attrs = [a for a, p in stored.items() if p == param]
            col.check(bool(attrs), 'C16-flow', f'Database.__init__:{param}', f'{param} stored as {attrs}',
                      f'Database.__init__ does not store `{param}`', node=init.node, file=init.file)
            prop = idx.lookup_prop(db.id, lang)
            if prop is None:
                raise AnchorMissing(f'Database.{lang}')
            rets = [n for n in walk_no_nested(prop.node) if isinstance(n, ast.Return)]
            if not rets:
                raise Unrecognised(f'Database.{lang} has no return', prop.node)
            for r in rets:
                v = r.value
                ok = False
                why = f'returns `{norm(v)}`'
                if isinstance(v, ast.Call) and isinstance(v.func, ast.Attribute) and v.func.attr == 'render_db':
                    recv = access_path(v.func.value)
                    arg_ok = len(v.args) == 1 and isinstance(v.args[0], ast.Name) and v.args[0].id == 'self'
                    if recv and recv.startswith('self.') and recv[5:] in attrs and arg_ok:
                        ok = True
                    else:
                        why = f'calls render_db on `{recv}` (expected self.{attrs[0] if attrs else param}) with args {[norm(a) for a in v.args]}'
                col.check(ok, 'C16-flow', f'Database.{lang}:{norm(v)}',
                          f'Database.{lang} = self.<{param}>.render_db(self)',
                          f'Database.{lang} does not render through the configured {param}: {why}', node=r, file=prop.file)
    guarded(col, 'C16-flow', 'Database', flow)

    # ------------------------------------------------------------------ C16-b: dispatch polarity
    def dispatch():
        db = idx.cls('pydbml.database', 'Database')
        init = idx.lookup_method(db.id, '__init__')
        defaults: Dict[str, Optional[ClassInfo]] = {}
        a = init.node.args
        pos = a.args[1:]
        dflts = a.defaults
        for i, arg in enumerate(pos):
            j = i - (len(pos) - len(dflts))
            if j >= 0 and arg.arg in LANG.values():
                defaults[arg.arg] = idx.class_of(init.module, dflts[j])
        for cname, lang in (('SQLObject', 'sql'), ('DBMLObject', 'dbml')):
            ci = idx.cls('pydbml._classes.base', cname)
            prop = idx.lookup_prop(ci.id, lang)
            if prop is None:
                raise AnchorMissing(f'{cname}.{lang}')
            param = LANG[lang]
            default_cls = defaults.get(param)
            if default_cls is None:
                raise Unrecognised(f'Database.__init__ default for {param} is not a class', init.node)
            from ..inline import inlined_info
            prop = inlined_info(idx, prop, depth=3)
            paths = function_paths(prop.node, unroll=1)
            n_present = n_absent = 0
            for path in paths:
                lits = []
                env: Dict[str, ast.AST] = {}
                local_imports: Dict[str, str] = {}
                for ev in path:
                    n = ev.node
                    if ev.kind == 'test':
                        lits.extend(conjuncts(term(n, ev.outcome)))
                    elif ev.kind == 'stmt' and isinstance(n, ast.Assign) and len(n.targets) == 1 and isinstance(n.targets[0], ast.Name):
                        env[n.targets[0].id] = n.value
                    elif ev.kind == 'stmt' and isinstance(n, ast.ImportFrom):
                        for al in n.names:
                            local_imports[al.asname or al.name] = f'{n.module}:{al.name}'
                last = path[-1]
                if last.kind != 'return' or last.node is None:
                    continue
                v = last.node.value
                if not (isinstance(v, ast.Call) and isinstance(v.func, ast.Attribute) and v.func.attr == 'render'
                        and len(v.args) == 1 and isinstance(v.args[0], ast.Name) and v.args[0].id == 'self'):
                    col.unk('C16-dispatch', f'{cname}.{lang}:return:{norm(v)[:40]}',
                            f'{cname}.{lang} returns `{norm(v)[:60]}`, not <renderer>.render(self); cannot judge the dispatch', node=last.node, file=prop.file)
                    continue
                r = v.func.value
                rexpr = r
                for _ in range(6):
                    if isinstance(rexpr, ast.Name) and rexpr.id in env:
                        rexpr = env[rexpr.id]
                    else:
                        break
                # a local that holds self.database (`db = self.database`, `db = getattr(self, 'database', None)`) is read as self.database
                aliases = {nm for nm, val in env.items() if access_path(val) == 'self.database' or (
                    isinstance(val, ast.Call) and isinstance(val.func, ast.Name) and val.func.id == 'getattr' and len(val.args) == 3
                    and norm(val.args[0]) == 'self' and isinstance(val.args[1], ast.Constant) and val.args[1].value == 'database'
                    and isinstance(val.args[2], ast.Constant) and val.args[2].value is None)}

                def unalias(x):
                    if isinstance(x, tuple):
                        return tuple(unalias(y) for y in x)
                    if isinstance(x, list):
                        return [unalias(y) for y in x]
                    if isinstance(x, str):
                        for nm in aliases:
                            if x == nm:
                                return 'self.database'
                            if x.startswith(nm + '.'):
                                return 'self.database' + x[len(nm):]
                    return x
                lits = [unalias(l) for l in lits]
                rpath = unalias(access_path(rexpr) or '')
                by_truth = ('truthy', 'self.database') in lits and ('not', ('none', 'self.database')) not in lits
                if (by_truth or ('not', ('truthy', 'self.database')) in lits) and any(mn in db.methods for mn in ('__bool__', '__len__')):
                    mn = next(mn for mn in ('__bool__', '__len__') if mn in db.methods)
                    col.bad('C16-dispatch', f'{cname}.{lang}:presence-test', f'{cname}.{lang} decides "has a database" by the truth value of the Database object, and '
                            f'Database defines {mn}: a database that is empty (falsy) is treated as absent, so its elements fall back to the default renderer instead of '
                            f'the configured one', node=last.node, file=prop.file)
                present = ('not', ('none', 'self.database')) in lits or ('truthy', 'self.database') in lits
                absent_atoms = {('none', 'self.database'), ('not', ('truthy', 'self.database')),
                                ('not', ('hasattr', 'self', "'database'"))}
                absent = any(l in absent_atoms or (l[0] == 'or' and all(d in absent_atoms for d in l[1])) for l in lits)
                if present and not absent:
                    n_present += 1
                    ap = rpath or access_path(rexpr)
                    col.check(ap == f'self.database.{param}', 'C16-dispatch', f'{cname}.{lang}:attached',
                              f'attached element renders through self.database.{param}',
                              f'on the path where the element has a database, {cname}.{lang} uses `{norm(rexpr)}` '
                              f'instead of self.database.{param}', node=last.node, file=prop.file)
                elif absent:
                    n_absent += 1
                    target = None
                    if isinstance(rexpr, ast.Name):
                        if rexpr.id in local_imports:
                            m, nm = local_imports[rexpr.id].split(':')
                            sym = idx.resolve(m, nm) if m in idx.modules else None
                            if sym is not None and sym.kind == 'class':
                                target = f'{sym.module}:{sym.name}'
                        else:
                            c2 = idx.class_of(prop.module, rexpr)
                            target = c2.id if c2 else None
                    col.check(target == default_cls.id, 'C16-dispatch', f'{cname}.{lang}:detached',
                              f'detached element renders through the default {default_cls.name}',
                              f'on the path where the element has no database, {cname}.{lang} uses `{norm(rexpr)}` '
                              f'(resolved {target}) instead of the default {default_cls.name}', node=last.node, file=prop.file)
                else:
                    col.unk('C16-dispatch', f'{cname}.{lang}:path', f'path without a decided database test: {lits}',
                            node=last.node, file=prop.file)
            if n_present >= 1 and n_absent >= 1:
                col.ok('C16-dispatch', f'{cname}.{lang}:both-branches', 'both the attached and the detached branch exist', node=prop.node, file=prop.file)
            else:
                col.unk('C16-dispatch', f'{cname}.{lang}:both-branches', f'{cname}.{lang}: attached ({n_present}) / detached ({n_absent}) branches not both recognised',
                        node=prop.node, file=prop.file)
        # Column.database goes through its table
        colc = idx.cls('pydbml._classes.column', 'Column')
        p = idx.lookup_prop(colc.id, 'database')
        if p is None:
            raise AnchorMissing('Column.database property')
        ok = False
        for path in function_paths(p.node, unroll=1):
            lits = [c for ev in path if ev.kind == 'test' for c in conjuncts(term(ev.node, ev.outcome))]
            last = path[-1]
            if last.kind == 'return' and last.node is not None and last.node.value is not None:
                for sub in ast.walk(last.node.value):
                    if access_path(sub) == 'self.table.database':
                        ok = True
        col.check(ok, 'C16-dispatch', 'Column.database:via-table', 'Column.database reads self.table.database',
                  'Column.database does not return its table\'s database', node=p.node, file=p.file)
    guarded(col, 'C16-dispatch', 'dispatch', dispatch)

    def attachment():
        # which renderer an element uses is decided by its `database` pointer: it must be set exactly for the elements the database holds, i.e. set on add
        # and cleared on the element that was actually removed (obligations shared with C09-backptr)
        sub = ctx.sub('c09', col.prop)
        n = 0
        for o in sub.obs:
            if o.rule == 'C09-backptr' and o.construct.startswith('Database.') and (':sets-owner' in o.construct or ':clears-owner' in o.construct or ':stores' in o.construct
                                                                                      or ':detaches-old' in o.construct):
                n += 1
                col.obs.append(type(o)(col.prop, 'C16-dispatch', 'attachment:' + o.construct, o.status, o.msg, o.file, o.line, o.extra))
        col.floor('C16-dispatch', 'attachment obligations', n, 10)
    guarded(col, 'C16-dispatch', 'attachment', attachment)

    # ------------------------------------------------------------------ C16-c: registry
    def registry():
        base = idx.cls('pydbml.renderer.base', 'BaseRenderer')
        render = base.methods.get('render')
        if render is None:
            raise AnchorMissing('BaseRenderer.render')
        col.check(render.kind == 'classmethod', 'C16-registry', 'BaseRenderer.render:classmethod',
                  'render is a classmethod', 'BaseRenderer.render is not a classmethod', node=render.node, file=render.file)
        from .common import inline_single_assignment_locals
        rnode = inline_single_assignment_locals(render.node)
        rets = [n for n in walk_no_nested(rnode) if isinstance(n, ast.Return)]
        found = False
        for r in rets:
            v = r.value
            # cls.model_renderers.get(type(model), FALLBACK)(model)
            if isinstance(v, ast.Call) and isinstance(v.func, ast.Call) and isinstance(v.func.func, ast.Attribute) \
                    and v.func.func.attr == 'get' and access_path(v.func.func.value) == 'cls.model_renderers':
                inner = v.func
                key_ok = len(inner.args) >= 1 and norm(inner.args[0]) == 'type(model)'
                fb = inner.args[1] if len(inner.args) >= 2 else None
                arg_ok = len(v.args) == 1 and norm(v.args[0]) == 'model'
                col.check(key_ok and arg_ok, 'C16-registry', 'BaseRenderer.render:key',
                          'dispatch key is type(model) and the handler receives the model',
                          f'dispatch is `{norm(v)}`', node=r, file=render.file)
                found = True
                if fb is None:
                    col.bad('C16-registry', 'BaseRenderer.render:fallback', 'registry lookup has no fallback: an unsupported '
                            'element type raises instead of rendering as an empty string', node=r, file=render.file)
                else:
                    # resolve cls._unsupported_renderer -> class attr -> function
                    target = None
                    if isinstance(fb, ast.Attribute) and isinstance(fb.value, ast.Name) and fb.value.id == 'cls':
                        val = idx.class_attr(base.id, fb.attr)
                        if val is not None:
                            sym = idx.resolve_expr(base.module, val)
                            if sym is not None and sym.kind == 'func':
                                target = idx.funcs.get(f'{sym.module}:{sym.name}')
                    elif isinstance(fb, ast.Name):
                        sym = idx.resolve(base.module, fb.id)
                        if sym is not None and sym.kind == 'func':
                            target = idx.funcs.get(f'{sym.module}:{sym.name}')
                    elif isinstance(fb, ast.Lambda):
                        ok = isinstance(fb.body, ast.Constant) and fb.body.value == ''
                        col.check(ok, 'C16-registry', 'BaseRenderer.render:fallback-empty', 'fallback returns the empty string',
                                  f'fallback lambda returns `{norm(fb.body)}`', node=r, file=render.file)
                        continue
                    if target is None:
                        col.unk('C16-registry', 'BaseRenderer.render:fallback', f'cannot resolve fallback `{norm(fb)}`', node=r,
                                file=render.file)
                    else:
                        trets = [n for n in walk_no_nested(target.node) if isinstance(n, ast.Return)]
                        ok = bool(trets) and all(isinstance(t.value, ast.Constant) and t.value.value == '' for t in trets) \
                            and not any(isinstance(n, ast.Raise) for n in walk_no_nested(target.node))
                        col.check(ok, 'C16-registry', 'BaseRenderer.render:fallback-empty',
                                  f'fallback {target.qualname} returns the empty string',
                                  f'fallback {target.qualname} does not always return the empty string', node=target.node,
                                  file=target.file)
        if found:
            col.ok('C16-registry', 'BaseRenderer.render:shape', 'render = registry.get(type(model), fallback)(model)', node=render.node, file=render.file)
        elif any(isinstance(x, ast.Attribute) and x.attr == 'model_renderers' for x in ast.walk(render.node)):
            col.unk('C16-registry', 'BaseRenderer.render:shape', 'BaseRenderer.render uses the registry in a form other than registry.get(type(model), fallback)(model)',
                    node=render.node, file=render.file)
        else:
            col.bad('C16-registry', 'BaseRenderer.render:shape', 'BaseRenderer.render does not consult cls.model_renderers at all: registered handlers are never used',
                    node=render.node, file=render.file)
        # concrete renderers own a fresh registry
        concrete = idx.subclasses(base.id)
        col.floor('C16-registry', 'concrete renderer classes', len(concrete), 2)
        for rc in concrete:
            v = rc.class_attrs.get('model_renderers')
            ok = isinstance(v, ast.Dict) and not v.keys
            col.check(ok, 'C16-registry', f'{rc.name}:own-registry', f'{rc.name} defines its own empty registry',
                      f'{rc.name} does not define its own `model_renderers = {{}}` (handlers would be registered on a shared dict)',
                      node=rc.node, file=rc.module.replace('.', '/') + '.py')
            # an overriding render must end in super().render(model)
            if 'render' in rc.methods:
                m = rc.methods['render']
                for path in function_paths(m.node, unroll=1):
                    last = path[-1]
                    if last.kind == 'return':
                        v2 = last.node.value if last.node is not None else None
                        ok2 = isinstance(v2, ast.Call) and isinstance(v2.func, ast.Attribute) and v2.func.attr == 'render' \
                            and isinstance(v2.func.value, ast.Call) and norm(v2.func.value.func) == 'super' \
                            and len(v2.args) == 1 and norm(v2.args[0]) == 'model'
                        col.check(ok2, 'C16-registry', f'{rc.name}.render:delegates', 'override delegates to the registry dispatch',
                                  f'{rc.name}.render returns `{norm(v2) if v2 is not None else None}` instead of super().render(model)',
                                  node=last.node or m.node, file=m.file)
        # registration reachability
        nmods = 0
        for rcid, table in idx.registry.items():
            rc = idx.classes[rcid]
            pkg = idx.modules[rc.module].package
            init_mod = idx.modules.get(pkg)
            if init_mod is None:
                raise AnchorMissing(f'package {pkg}')
            imported: Set[str] = set()
            stack = [pkg]
            while stack:
                m = stack.pop()
                if m in imported or m not in idx.modules:
                    continue
                imported.add(m)
                mod = idx.modules[m]
                for n in mod.tree.body:
                    if isinstance(n, ast.ImportFrom):
                        tm = idx._abs_module(mod, n.level, n.module)
                        if tm.startswith(pkg):
                            stack.append(tm)
                            for al in n.names:
                                stack.append(f'{tm}.{al.name}')
                    elif isinstance(n, ast.Import):
                        for al in n.names:
                            if al.name.startswith(pkg):
                                stack.append(al.name)
            regmods = sorted({f.module for funcs in table.values() for f in funcs})
            for m in regmods:
                nmods += 1
                col.check(m in imported, 'C16-registry', f'{rc.name}:registers:{m}',
                          f'{m} is imported when package {pkg} is imported',
                          f'{m} registers handlers for {rc.name} but is not imported by {pkg}/__init__.py: its handlers '
                          f'are never registered unless a user imports the module by hand', file=m.replace('.', '/') + '.py')
            col.stat(f'handlers_{rc.name}', sum(len(v) for v in table.values()))
        col.floor('C16-registry', 'registering modules', nmods, 17)
        nh = sum(len(v) for t in idx.registry.values() for v in t.values())
        col.floor('C16-registry', 'registered handlers', nh, 19)
    guarded(col, 'C16-registry', 'registry', registry)

    # ------------------------------------------------------------------ C16-d: composition
    def composition():
        expected = {
            'pydbml.renderer.dbml.default.renderer:DefaultDBMLRenderer': {'project', 'enums', 'tables', 'refs', 'table_groups', 'sticky_notes'},
            'pydbml.renderer.sql.default.renderer:DefaultSQLRenderer': {'enums', 'tables', 'refs'},
        }
        for cid, colls in expected.items():
            rc = idx.classes.get(cid)
            if rc is None:
                raise AnchorMissing(cid)
            m = rc.methods.get('render_db')
            if m is None:
                raise AnchorMissing(f'{rc.name}.render_db')
            from .common import expanded
            m = expanded(ctx, m.module, m.qualname, keep_extra=('render', 'reorder_tables_for_sql'))
            dbp = [a.arg for a in m.node.args.args][1]
            rets = [n for n in walk_no_nested(m.node) if isinstance(n, ast.Return)]
            if len(rets) != 1:
                raise Unrecognised(f'{rc.name}.render_db has {len(rets)} returns', m.node)
            v = rets[0].value
            env = {}
            for n in walk_no_nested(m.node):
                if isinstance(n, ast.Assign) and len(n.targets) == 1 and isinstance(n.targets[0], ast.Name):
                    env[n.targets[0].id] = n.value
                elif isinstance(n, ast.AnnAssign) and isinstance(n.target, ast.Name) and n.value is not None:
                    env[n.target.id] = n.value
            # the returned text, evaluated abstractly on every path (sa/strval.py): nothing but element renderings and separators, every element rendered through cls
            import re as _re
            from ..strval import skeleton_paths, show_labelled, _MARK
            sks = skeleton_paths(m.node, unroll=1)
            if not sks:
                raise Unrecognised(f'{rc.name}.render_db: no returning path could be followed', m.node)
            verdict = {'literal': None, 'recv': None, 'unknown': None, 'sep': None}
            n_holes = 0
            for _, alt, _, exprs in sks:
                lit = _MARK.sub('', alt)
                if lit.strip():
                    verdict['literal'] = verdict['literal'] or lit.strip()[:40]
                if lit and '\n' not in lit:
                    verdict['sep'] = verdict['sep'] or lit
                for mk in _MARK.finditer(alt):
                    kind, label = mk.group(1), mk.group(2)
                    n_holes += 1
                    e = exprs.get(label)
                    calls = [c for c in ast.walk(e) if isinstance(c, ast.Call) and isinstance(c.func, ast.Attribute) and c.func.attr == 'render'] if e is not None else []
                    if kind == '\x02' or not calls:
                        verdict['unknown'] = verdict['unknown'] or (label or '?')
                        continue
                    for c in calls:
                        if not (isinstance(c.func.value, ast.Name) and c.func.value.id == 'cls'):
                            verdict['recv'] = verdict['recv'] or norm(c.func.value)
            if verdict['literal']:
                col.bad('C16-compose', f'{rc.name}.render_db:join', f'render_db adds text of its own (`{verdict["literal"]}`) around the element renderings: the database text is '
                        f'not the element texts joined verbatim', node=rets[0], file=m.file)
                continue
            if verdict['unknown'] and not n_holes - 0:
                raise Unrecognised('render_db returns text this rule cannot follow', rets[0])
            if verdict['unknown']:
                col.unk('C16-compose', f'{rc.name}.render_db:element', f'part of the database text (`{verdict["unknown"][:60]}`) is not visibly an element rendering', node=rets[0],
                        file=m.file)
                continue
            col.ok('C16-compose', f'{rc.name}.render_db:join', 'the database text consists of element renderings and separators only', node=rets[0], file=m.file)
            col.check(verdict['sep'] is None, 'C16-compose', f'{rc.name}.render_db:separator', 'elements are separated by line breaks',
                      f'separator {verdict["sep"]!r} has no line break', node=rets[0], file=m.file)
            col.check(verdict['recv'] is None, 'C16-compose', f'{rc.name}.render_db:dispatch-receiver', 'elements are rendered through cls (the configured class)',
                      f'render_db renders elements through `{verdict["recv"]}` instead of `cls`: a configured subclass of {rc.name} is bypassed at database level while '
                      f'elements still use it', node=rets[0], file=m.file)
            filt_join = [c for c in ast.walk(m.node) if isinstance(c, (ast.GeneratorExp, ast.ListComp)) and any(isinstance(x, ast.Call) and isinstance(x.func, ast.Attribute)
                         and x.func.attr == 'render' for x in ast.walk(c.elt)) and any(g.ifs for g in c.generators)]
            col.check(not filt_join, 'C16-compose', f'{rc.name}.render_db:no-filter', 'no element is filtered out at join time', 'the join filters elements', node=rets[0], file=m.file)
            # ... nor before it: a truth test on the elements themselves (`filter(None, items)`, `if x`) is meant to drop a missing project, but it also drops every
            # element whose class defines its own truth value (a sticky note without text is falsy)
            from .presence import falsy_capable, truth_tested, expr_classes
            fc = falsy_capable(idx)
            dropped = []
            for site, e in truth_tested(m.node):
                if isinstance(site, ast.comprehension) or isinstance(e, ast.Starred):
                    hit = sorted(idx.classes[c].name for c in expr_classes(idx, m, e) & set(fc))
                    if hit:
                        dropped.append((site, e, hit))
            cons_t = f'{rc.name}.render_db:no-truth-filter'
            if dropped:
                site, e, hit = dropped[0]
                col.bad('C16-compose', cons_t, f'{rc.name}.render_db keeps the elements that are truthy (`{norm(e)[:50]}`): {"/".join(hit)} defines its own truth value '
                        f'({", ".join(fc[c] for c in fc if idx.classes[c].name in hit)}), so an element of that class that is empty is left out of the database text although '
                        f'its own text is not empty', node=rets[0], file=m.file)
            else:
                col.ok('C16-compose', cons_t, 'no selection by the truth value of the elements (classes with a truth value of their own: '
                       f'{sorted(idx.classes[c].name for c in fc)})', node=rets[0], file=m.file)
            # collections read
            reads: Dict[str, int] = {}
            for n in walk_no_nested(m.node):
                if isinstance(n, ast.Attribute) and isinstance(n.value, ast.Name) and n.value.id == dbp and isinstance(n.ctx, ast.Load):
                    reads[n.attr] = reads.get(n.attr, 0) + 1
            for c in sorted(colls):
                col.check(reads.get(c, 0) >= 1, 'C16-compose', f'{rc.name}.render_db:reads:{c}',
                          f'db.{c} is part of the database-level text',
                          f'{rc.name}.render_db never reads db.{c}: those elements are missing from the database text',
                          node=m.node, file=m.file)
            # the ref filter is `not ref.inline`
            from .common import select_filter
            stf, ff = select_filter(m.node, f'{dbp}.refs', [('not', ('truthy', 'VAR.inline'))])
            cons = f'{rc.name}.render_db:non-inline-refs'
            if stf == 'ok':
                col.ok('C16-compose', cons, 'database level lists exactly the references that are not inline', node=m.node, file=m.file)
            elif stf == 'bad':
                col.bad('C16-compose', cons, f'{rc.name}.render_db selects references under {ff["conds"]}; expected exactly `not ref.inline`', node=m.node, file=m.file)
            else:
                col.unk('C16-compose', cons, f'{rc.name}.render_db does not iterate {dbp}.refs in a recognised form', node=m.node, file=m.file)
    guarded(col, 'C16-compose', 'render_db', composition)

    guarded(col, 'C16-pure', 'render-closure', lambda: purity_obligations(ctx, col, 'C16-pure'))
