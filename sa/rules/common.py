"""Rule parts shared by several properties (render entry points, purity, guard helper)."""
from __future__ import annotations

import ast
from typing import Callable, Dict, Iterable, List, Optional, Sequence, Set, Tuple

from ..core import Collector, norm, Unrecognised, AnchorMissing
from ..pyindex import FuncInfo, ClassInfo, walk_no_nested, access_path
from ..calls import CallGraph
from ..effects import Effects
from ..paths import function_paths, Ev, walk_event
from ..cond import term, conjuncts, neg

CACHE_DECORATORS = ('lru_cache', 'cache', 'cached_property', 'functools.lru_cache', 'functools.cache',
                    'functools.cached_property')


def get_cg(ctx) -> CallGraph:
    if getattr(ctx, '_cg', None) is None:
        ctx._cg = CallGraph(ctx.idx)
    return ctx._cg


def get_eff(ctx) -> Effects:
    if getattr(ctx, '_eff', None) is None:
        ctx._eff = Effects(ctx.idx, get_cg(ctx))
    return ctx._eff


def renderer_classes(ctx) -> List[ClassInfo]:
    idx = ctx.idx
    base = idx.cls('pydbml.renderer.base', 'BaseRenderer')
    return [base] + idx.subclasses(base.id)


def render_entries(ctx) -> List[FuncInfo]:
    """Everything a user can evaluate to obtain a rendering."""
    idx = ctx.idx
    out: List[FuncInfo] = []
    db = idx.cls('pydbml.database', 'Database')
    for name in ('sql', 'dbml'):
        p = idx.lookup_prop(db.id, name)
        if p is None:
            raise AnchorMissing(f'Database.{name} property')
        out.append(p)
    for cname, pname in (('SQLObject', 'sql'), ('DBMLObject', 'dbml')):
        ci = idx.cls('pydbml._classes.base', cname)
        p = idx.lookup_prop(ci.id, pname)
        if p is None:
            raise AnchorMissing(f'{cname}.{pname} property')
        out.append(p)
    for rc in renderer_classes(ctx):
        for m in ('render', 'render_db'):
            if m in rc.methods:
                out.append(rc.methods[m])
    for table in idx.registry.values():
        for funcs in table.values():
            out.extend(funcs)
    seen = set()
    uniq = []
    for f in out:
        if f.id not in seen:
            seen.add(f.id)
            uniq.append(f)
    return uniq


def purity_obligations(ctx, col: Collector, rule: str) -> None:
    """Every render entry point mutates nothing but objects created during the call, and
    nothing on its call-graph closure memoises."""
    idx = ctx.idx
    cg = get_cg(ctx)
    eff = get_eff(ctx)
    entries = render_entries(ctx)
    col.floor(rule, 'render entry points', len(entries), 24)
    closure = cg.closure(e.id for e in entries)
    nsites = 0
    for fid in sorted(closure):
        fi = idx.funcs[fid]
        nsites += len(eff.sites(fi))
    col.stat('render_closure_functions', len(closure))
    col.stat('render_closure_mutation_sites', nsites)
    col.stat('calls_total', cg.total_calls)
    col.stat('calls_resolved', cg.resolved_calls)
    for e in entries:
        muts = eff.mutates(e)
        if not muts:
            col.ok(rule, f'{e.qualname}:pure', f'{e.id} stores only into objects created during the call '
                   f'({len(eff.sites(e))} direct mutation sites, all fresh)', node=e.node, file=e.file)
        else:
            for t in sorted(muts):
                why = eff.why[e.id].get(t, '')
                col.bad(rule, f'{e.qualname}:mutates:{t.replace("[]", "")}',
                        f'render entry {e.id} mutates non-fresh state `{t}`: {why}', node=e.node, file=e.file)
    # caches anywhere on the closure
    ncache = 0
    for fid in sorted(closure):
        fi = idx.funcs[fid]
        for dec in getattr(fi.node, 'decorator_list', []):
            d = norm(dec.func if isinstance(dec, ast.Call) else dec)
            if d in CACHE_DECORATORS or d.split('.')[-1] in ('lru_cache', 'cache', 'cached_property'):
                ncache += 1
                col.bad(rule, f'{fi.qualname}:cache-decorator', f'{fi.id} is memoised with @{d}: a later edit of the model '
                        f'is not reflected', node=fi.node, file=fi.file)
    col.check(ncache == 0, rule, 'closure:no-cache-decorators', f'no memoising decorator on {len(closure)} render-reachable functions',
              'memoising decorators on the render closure')


def exc_class_name(e: Optional[ast.AST]) -> str:
    if e is None:
        return ''
    if isinstance(e, ast.Call):
        e = e.func
    if isinstance(e, ast.Name):
        return e.id
    if isinstance(e, ast.Attribute):
        return e.attr
    return norm(e)


def resolve_exc(ctx, fi: FuncInfo, e: Optional[ast.AST]) -> str:
    """'pydbml.exceptions:Name' / 'builtin:Name' / 'ext:dotted'."""
    if e is None:
        return 're-raise'
    if isinstance(e, ast.Call):
        e = e.func
    if isinstance(e, (ast.Name, ast.Attribute)):
        sym = ctx.idx.resolve_expr(fi.module, e)
        if sym is not None and sym.kind == 'class':
            return f'{sym.module}:{sym.name}'
        if sym is not None and sym.kind == 'import':
            return f'ext:{sym.target_mod}.{sym.target_name}'
        if isinstance(e, ast.Name):
            return f'builtin:{e.id}'
    return 'unknown:' + norm(e)


def paths_of(fi: FuncInfo, unroll: int = 2):
    return function_paths(fi.node, unroll=unroll)


def event_calls(ev: Ev) -> List[ast.Call]:
    return [n for n in walk_event(ev) if isinstance(n, ast.Call)]


def lits_before(path: Sequence[Ev], idx: int, subst=None) -> List[tuple]:
    out = []
    for ev in path[:idx]:
        if ev.kind == 'test':
            out.extend(conjuncts(term(ev.node, ev.outcome, subst)))
    return out


def first_param(fi: FuncInfo) -> str:
    names = [a.arg for a in fi.node.args.args]
    if fi.kind in ('method', 'property', 'setter', 'classmethod') and names:
        names = names[1:]
    if not names:
        raise Unrecognised(f'{fi.qualname} has no parameter', fi.node)
    return names[0]


# ----------------------------------------------------------------------------------------------
# guard obligations (E7)
# ----------------------------------------------------------------------------------------------

def enclosing_loops(fn: ast.AST, target: ast.AST) -> List[ast.AST]:
    """For/While statements of fn that (transitively) contain `target`, outermost first."""
    out: List[ast.AST] = []

    def visit(node, stack):
        if node is target:
            out.extend(stack)
            return True
        for ch in ast.iter_child_nodes(node):
            ns = stack + [node] if isinstance(node, (ast.For, ast.While, ast.AsyncFor)) else stack
            if visit(ch, ns):
                return True
        return False
    visit(fn, [])
    return out


def guard_obligation(ctx, col: Collector, rule: str, fi: FuncInfo, name: str,
                     lit_match: Callable[[List[tuple], ast.AST], bool], exc_ids: Iterable[str],
                     protect: Optional[Callable[[Ev], bool]] = None, what: str = '',
                     subst_locals: bool = True, require_loop_over: Optional[str] = None,
                     mutation_pred: Optional[Callable[[Ev], bool]] = None, when: bool = True, _inlined: bool = False) -> bool:
    """A guard = a branch test G such that
         (1) some test in `fi` matches `lit_match` (on the conjuncts of its true-branch term),
         (2) every path on which G is true ends in `raise <one of exc_ids>` and nothing protected
             (and no mutation) happens between G and the raise,
         (3) every path that reaches a protected event has G false before it (for a G inside a
             loop: the loop has run to exhaustion before it).
       Reports one obligation per clause; returns True if all discharged."""
    from ..cond import copy_subst
    exc_ids = set(exc_ids)
    cons = f'{fi.qualname}:{name}'
    paths = paths_of(fi, ctx.unroll)
    ctx.current_fn = fi.node
    # collect candidate guard nodes
    gnodes: Dict[int, ast.AST] = {}
    for path in paths:
        stmts_before: List[ast.AST] = []
        for ev in path:
            if ev.kind == 'stmt':
                stmts_before.append(ev.node)
            if ev.kind == 'test' and id(ev.node) not in gnodes:
                subst = copy_subst(stmts_before) if subst_locals else None
                lits = conjuncts(term(ev.node, when, subst))
                try:
                    if lit_match(lits, ev.node):
                        gnodes[id(ev.node)] = ev.node
                except Exception:
                    pass
    if not gnodes and not getattr(ctx, '_flipped_guard', False):
        # the same check may be spelled with the opposite polarity (`if x not in c: raise` vs `if x in c: ... else: raise`)
        ctx._flipped_guard = True
        try:
            probe = Collector(col.prop)
            okp = guard_obligation(ctx, probe, rule, fi, name, lit_match, exc_ids, protect, what, subst_locals, require_loop_over,
                                   mutation_pred, not when, _inlined=True)
        finally:
            ctx._flipped_guard = False
        if any(o.construct.endswith(':present') and o.status == 'discharged' for o in probe.obs):
            col.obs.extend(probe.obs)
            return okp
    if not gnodes and not _inlined:
        # second look with small helpers inlined (extract-method refactorings)
        from ..inline import inlined_info
        fi2 = inlined_info(ctx.idx, fi)
        if ast.dump(fi2.node) != ast.dump(fi.node):
            return guard_obligation(ctx, col, rule, fi2, name, lit_match, exc_ids, protect, what, subst_locals, require_loop_over,
                                    mutation_pred, when, _inlined=True)
    if not gnodes:
        # positive evidence of a missing guard = the expected exception class is raised nowhere in the function or in the
        # package functions it calls; if it still is, the guard was only rewritten in a form this rule does not read
        still = raises_in_closure(ctx, fi, exc_ids)
        # positive evidence of the other kind: every raise of the expected class sits in this function, under conditions that can all be read as plain tests on
        # access paths - and none of them is the check asked for.  Then the function demonstrably raises only for OTHER reasons.
        own = [n for n in walk_no_nested(fi.node) if isinstance(n, ast.Raise) and n.exc is not None and resolve_exc(ctx, fi, n.exc) in exc_ids]
        if still and len(own) == len(still) and not require_loop_over:
            def plain(l) -> bool:
                if not isinstance(l, tuple) or not l:
                    return False
                if l[0] == 'not':
                    return plain(l[1])
                if l[0] in ('in', 'eq', 'is'):
                    return all(isinstance(x, str) and '(' not in x and 'lambda' not in x for x in l[1:])
                if l[0] in ('truthy', 'none'):
                    return isinstance(l[1], str) and '(' not in l[1]
                if l[0] == 'isinstance':
                    return True
                return False
            reasons = []
            readable = True
            for path in paths:
                if path[-1].kind != 'raise' or path[-1].node not in own:
                    continue
                before: List[ast.AST] = []
                lits_: List[tuple] = []
                for ev in path:
                    if ev.kind == 'stmt':
                        before.append(ev.node)
                        if any(isinstance(x, ast.Call) for x in ast.walk(ev.node)) and not isinstance(ev.node, ast.Expr):
                            pass
                    elif ev.kind == 'test':
                        lits_.extend(conjuncts(term(ev.node, ev.outcome, copy_subst(before) if subst_locals else None)))
                    elif ev.kind == 'iter':
                        readable = False
                if not all(plain(l) for l in lits_):
                    readable = False
                reasons.append(sorted({str(l) for l in lits_ if not (l[0] == 'not')})[:3])
            if readable and reasons:
                col.bad(rule, cons + ':present', f'{fi.qualname}: no branch test establishes `{what or name}`; {sorted(e.split(":")[-1] for e in exc_ids)} is raised only under '
                        f'{reasons[:3]} - the guard is missing', node=fi.node, file=fi.file)
                return False
        if still:
            col.unk(rule, cons + ':present', f'{fi.qualname}: the check `{what or name}` is not in a recognised form (the expected exception is still raised at '
                    f'{still[0]}); cannot judge it', node=fi.node, file=fi.file)
        else:
            col.bad(rule, cons + ':present', f'{fi.qualname}: no branch test establishes `{what or name}` and {sorted(e.split(":")[-1] for e in exc_ids)} is raised nowhere '
                    f'in it (or in the helpers it calls) - the guard is missing', node=fi.node, file=fi.file)
        return False
    # several tests may match the literal (e.g. a retry before the final check): the guards are
    # those whose true branch always raises
    raising = {}
    for gid, g in gnodes.items():
        outcomes = [path[-1].kind == 'raise' for path in paths
                    if any(ev.kind == 'test' and ev.node is g and ev.outcome is when for ev in path)]
        if outcomes and all(outcomes):
            raising[gid] = g
    if raising:
        gnodes = raising
    ok_all = True
    col.ok(rule, cons + ':present', f'guard `{what or name}` present: {[norm(g) for g in gnodes.values()]}',
           node=next(iter(gnodes.values())), file=fi.file)
    # (2) true branch raises the right class
    n_true = 0
    bad2 = None
    for path in paths:
        for i, ev in enumerate(path):
            if ev.kind == 'test' and id(ev.node) in gnodes and ev.outcome is when:
                n_true += 1
                last = path[-1]
                cls = resolve_exc(ctx, fi, last.node.exc) if last.kind == 'raise' and last.node is not None else None
                if last.kind != 'raise':
                    bad2 = bad2 or (last, f'a path on which `{norm(ev.node)}` holds continues to {last.kind} '
                                          f'`{norm(last.node) if last.node is not None else "end"}` instead of raising')
                elif cls not in exc_ids:
                    bad2 = bad2 or (last, f'`{norm(ev.node)}` raises {cls}, expected one of {sorted(exc_ids)}')
                else:
                    for ev2 in path[i + 1:-1]:
                        if (protect and protect(ev2)) or (mutation_pred and mutation_pred(ev2)):
                            bad2 = bad2 or (ev2, f'`{norm(ev2.node)}` happens between the failed check `{norm(ev.node)}` and the raise')
                break
    if n_true == 0:
        bad2 = bad2 or (Ev('test', next(iter(gnodes.values()))), 'the guard has no true branch on any path')
    if bad2:
        ok_all = False
        col.bad(rule, cons + ':raises', f'{fi.qualname}: {bad2[1]}', node=bad2[0].node if bad2[0].node is not None else fi.node, file=fi.file)
    else:
        col.ok(rule, cons + ':raises', f'true branch of `{what or name}` always ends in raise {sorted(exc_ids)} ({n_true} paths)',
               node=next(iter(gnodes.values())), file=fi.file)
    # (3) dominance over protected events
    if protect is not None:
        loops = {gid: enclosing_loops(fi.node, g) for gid, g in gnodes.items()}
        if require_loop_over is not None:
            okl = False
            for gid, ls in loops.items():
                for l in ls:
                    if isinstance(l, ast.For):
                        from ..pyindex import access_path as _ap
                        srcs = {norm(x) for x in ast.walk(l.iter) if isinstance(x, (ast.Attribute, ast.Name))}
                        if require_loop_over in srcs or norm(l.iter) == require_loop_over:
                            okl = True
            if not okl:
                ok_all = False
                col.bad(rule, cons + ':scans', f'{fi.qualname}: the check `{what or name}` is not evaluated for every element of '
                        f'`{require_loop_over}`', node=next(iter(gnodes.values())), file=fi.file)
            else:
                col.ok(rule, cons + ':scans', f'check scans all of {require_loop_over}', node=fi.node, file=fi.file)
        n_prot = 0
        bad3 = None

        def prot_node(ev: Ev):
            return ev.node if ev.node is not None else None
        for path in paths:
            for i, ev in enumerate(path):
                if protect(ev):
                    n_prot += 1
                    established = False
                    pn = prot_node(ev)
                    for gid, g in gnodes.items():
                        ls = loops[gid]
                        # loops of the guard that do not also contain the protected statement
                        outer = [l for l in ls if pn is None or not node_in_loop_body(l, pn)]
                        if not outer:
                            # same iteration (or no loop): the guard must be false after the last
                            # entry of its innermost loop before the protected event
                            start = 0
                            if ls:
                                for j in range(i - 1, -1, -1):
                                    if path[j].kind == 'iter' and path[j].node is ls[-1] and path[j].outcome == 'enter':
                                        start = j
                                        break
                                    if path[j].kind == 'test' and isinstance(ls[-1], ast.While) and path[j].node is ls[-1].test \
                                            and path[j].outcome is True:
                                        start = j
                                        break
                            for ev2 in path[start:i]:
                                if ev2.kind == 'test' and ev2.node is g and ev2.outcome is (not when):
                                    established = True
                        else:
                            lx = outer[0]
                            for ev2 in path[:i]:
                                if ev2.kind == 'iter' and ev2.node is lx and ev2.outcome == 'exit':
                                    established = True
                                if ev2.kind == 'test' and isinstance(lx, ast.While) and ev2.node is lx.test and ev2.outcome is False:
                                    established = True
                    if not established:
                        bad3 = bad3 or (ev, f'`{norm(ev.node) if ev.node is not None else "normal return"}` is reachable on a path '
                                            f'on which `{what or name}` was not checked')
                    break
        if n_prot == 0:
            col.unk(rule, cons + ':dominates', f'{fi.qualname}: no protected statement found for guard `{what or name}`',
                    node=fi.node, file=fi.file)
            return False
        if bad3:
            ok_all = False
            col.bad(rule, cons + ':dominates', f'{fi.qualname}: {bad3[1]}', node=bad3[0].node if bad3[0].node is not None else fi.node,
                    file=fi.file)
        else:
            col.ok(rule, cons + ':dominates', f'guard `{what or name}` dominates all {n_prot} protected path positions',
                   node=fi.node, file=fi.file)
    return ok_all


def raises_in_closure(ctx, fi: FuncInfo, exc_ids, depth: int = 2) -> List[str]:
    """Places (file:line) in fi and in the package functions it calls (to `depth`) that raise one of exc_ids."""
    from ..calls import Resolver
    idx = ctx.idx
    res = getattr(ctx, '_resolver', None)
    if res is None:
        res = ctx._resolver = Resolver(idx)
    out: List[str] = []
    seen = set()
    frontier = [fi]
    for _ in range(depth + 1):
        nxt = []
        for f in frontier:
            if f.id in seen:
                continue
            seen.add(f.id)
            for n in walk_no_nested(f.node):
                if isinstance(n, ast.Raise) and n.exc is not None and resolve_exc(ctx, f, n.exc) in exc_ids:
                    out.append(f'{f.file}:{n.lineno}')
                if isinstance(n, ast.Call):
                    try:
                        for c in res.resolve_call(f, n, None, False):
                            if isinstance(c, FuncInfo):
                                nxt.append(c)
                    except Exception:
                        pass
            # nested functions / lambdas defined inside
        frontier = nxt
    return out


def node_in_loop_body(loop: ast.AST, inner: ast.AST) -> bool:
    """inner is executed per iteration of loop (its `else` block runs after exhaustion, i.e. outside)."""
    return any(n is inner for st in getattr(loop, 'body', []) for n in ast.walk(st))


def value_sources(fn: ast.AST, name: str, depth: int = 0) -> List[ast.AST]:
    """Expressions a local name can be bound to by assignments in fn (tuple unpacking resolved by position; a name bound
    to another plain name is followed)."""
    out: List[ast.AST] = []
    if depth > 6:
        return out
    for n in walk_no_nested(fn):
        if isinstance(n, ast.Assign):
            for t in n.targets:
                if isinstance(t, ast.Name) and t.id == name:
                    out.append(n.value)
                elif isinstance(t, (ast.Tuple, ast.List)) and isinstance(n.value, (ast.Tuple, ast.List)) and len(t.elts) == len(n.value.elts):
                    for te, ve in zip(t.elts, n.value.elts):
                        if isinstance(te, ast.Name) and te.id == name:
                            out.append(ve)
        elif isinstance(n, ast.AnnAssign) and isinstance(n.target, ast.Name) and n.target.id == name and n.value is not None:
            out.append(n.value)
    res: List[ast.AST] = []
    for v in out:
        if isinstance(v, ast.Name) and v.id != name:
            sub = value_sources(fn, v.id, depth + 1)
            res.extend(sub if sub else [v])
        else:
            res.append(v)
    return res


def resolve_names(fn: ast.AST, e: ast.AST, depth: int = 0) -> str:
    """Source of e with local names that are bound exactly once to an access path replaced by that path."""
    import copy as _copy

    class R(ast.NodeTransformer):
        def visit_Name(self, node):
            if isinstance(node.ctx, ast.Load):
                vs = value_sources(fn, node.id)
                if len(vs) == 1 and access_path(vs[0]) is not None and depth < 4:
                    return ast.parse(resolve_names(fn, vs[0], depth + 1), mode='eval').body
            return node
    return norm(R().visit(_copy.deepcopy(e)))


def node_in(outer: ast.AST, inner: ast.AST) -> bool:
    return any(n is inner for n in ast.walk(outer))


def is_normal_return(ev: Ev) -> bool:
    return ev.kind == 'return'


def calls_named(ev: Ev, name: str) -> List[ast.Call]:
    out = []
    for c in event_calls(ev):
        f = c.func
        if (isinstance(f, ast.Name) and f.id == name) or (isinstance(f, ast.Attribute) and f.attr == name):
            out.append(c)
    return out


def must_call_before(ctx, col: Collector, rule: str, fi: FuncInfo, name: str, callee: str,
                     protect: Callable[[Ev], bool], arg_check: Optional[Callable[[ast.Call], bool]] = None) -> bool:
    """must-pass-through: on every path, a call to `callee` precedes the first protected event."""
    cons = f'{fi.qualname}:{name}'
    paths = paths_of(fi, ctx.unroll)
    n = 0
    bad = None
    for path in paths:
        seen = False
        for ev in path:
            cs = calls_named(ev, callee)
            cs = [c for c in cs if arg_check is None or arg_check(c)]
            if protect(ev):
                n += 1
                # a call inside the same event counts only if it is evaluated first: keep strict
                if not seen:
                    bad = bad or ev
                break
            if cs:
                seen = True
    if n == 0:
        col.unk(rule, cons, f'{fi.qualname}: no protected event found for must-call `{callee}`', node=fi.node, file=fi.file)
        return False
    if bad is not None:
        col.bad(rule, cons, f'{fi.qualname}: `{norm(bad.node) if bad.node is not None else "return"}` is reached on a path that has not '
                f'called {callee}(...) first', node=bad.node if bad.node is not None else fi.node, file=fi.file)
        return False
    col.ok(rule, cons, f'every path calls {callee}(...) before the protected use ({n} positions)', node=fi.node, file=fi.file)
    return True


def collect_filters(fn: ast.AST) -> List[Dict[str, object]]:
    """Selections in fn, whether written as a comprehension/generator or as a loop that appends/yields:
    [{'iter': src, 'var': name, 'elt': src, 'conds': [src without spaces], 'node': node}]."""
    out: List[Dict[str, object]] = []
    for n in ast.walk(fn):
        if isinstance(n, (ast.ListComp, ast.GeneratorExp, ast.SetComp)) and len(n.generators) == 1:
            g = n.generators[0]
            out.append({'iter': norm(g.iter), 'var': norm(g.target), 'elt': norm(n.elt), 'conds': [norm(i).replace(' ', '') for i in g.ifs], 'node': n,
                        'terms': [c for i in g.ifs for c in conjuncts(term(i, True))]})
        if isinstance(n, (ast.ListComp, ast.GeneratorExp)) and len(n.generators) == 2 and isinstance(n.elt, ast.Name) and norm(n.generators[0].target) == n.elt.id \
                and not isinstance(n.generators[1].iter, ast.Subscript):
            # [x for x in XS for y in x.ys if P(y)]: x is produced once for EVERY y that passes - a selection with multiplicity, not a filter
            g, g2 = n.generators
            out.append({'iter': norm(g.iter), 'var': norm(g.target), 'elt': norm(n.elt), 'node': n, 'multi': True,
                        'conds': [norm(i).replace(' ', '') for i in g.ifs] + [f'once-per-{norm(g2.target)}-in-{norm(g2.iter)}'] + [norm(i).replace(' ', '') for i in g2.ifs],
                        'terms': [('once-per', norm(g2.target), norm(g2.iter))] + [c for i in g.ifs + g2.ifs for c in conjuncts(term(i, True))]})
        if isinstance(n, ast.For):
            var = norm(n.target)

            aliases: Dict[str, str] = {}

            def unalias(src: str) -> str:
                import re as _re
                for a_, v_ in aliases.items():
                    src = _re.sub(r'(?<![\w.])' + _re.escape(a_) + r'(?!\w)', v_, src)
                return src

            def harvest(body, conds, terms=()):
                for st in body:
                    # `item = ref` inside the loop: another name for the loop variable (left behind when a selection and the loop over it are fused)
                    if isinstance(st, ast.Assign) and len(st.targets) == 1 and isinstance(st.targets[0], ast.Name) and isinstance(st.value, ast.Name) \
                            and st.value.id == var and sum(1 for x in ast.walk(n) if isinstance(x, ast.Name) and x.id == st.targets[0].id and isinstance(x.ctx, ast.Store)) == 1:
                        aliases[st.targets[0].id] = var
                        continue
                    if isinstance(st, ast.If) and not st.orelse:
                        harvest(st.body, conds + [norm(st.test).replace(' ', '')], tuple(terms) + tuple(conjuncts(term(st.test, True))))
                    elif isinstance(st, ast.Expr) and isinstance(st.value, ast.Call) and isinstance(st.value.func, ast.Attribute) \
                            and st.value.func.attr in ('append', 'add') and len(st.value.args) == 1:
                        out.append({'iter': norm(n.iter), 'var': var, 'elt': unalias(norm(st.value.args[0])), 'conds': list(conds), 'node': n,
                                    'into': norm(st.value.func.value), 'terms': list(terms)})
                    elif isinstance(st, ast.Expr) and isinstance(st.value, ast.Yield) and st.value.value is not None:
                        out.append({'iter': norm(n.iter), 'var': var, 'elt': norm(st.value.value), 'conds': list(conds), 'node': n, 'terms': list(terms)})
            harvest(n.body, [])
    return out


def select_filter(fn: ast.AST, iter_src: str, want_terms, elt_is_var: bool = True, elt_pred=None):
    """Judge a selection over `iter_src`: ('ok'|'bad'|'none', entry) - ok if some selection over it has exactly the wanted
    condition literals (a set of cond terms with VAR standing for the loop variable); bad if selections over it exist but none
    has them; none if nothing in fn iterates iter_src."""
    cands = [f for f in collect_filters(fn) if f['iter'] == iter_src]
    if not cands:
        return 'none', None
    for f in cands:
        v = f['var']
        want = {_sub_var(t, v) for t in want_terms}
        # the selected element is the loop variable itself, or (a selection fused with the loop that consumes it) a call with the variable as an argument
        import re as _re
        whole = f['elt'] == v or bool(_re.search(r'[(,] ?' + _re.escape(v) + r' ?[,)]', f['elt']))
        if set(f['terms']) == want and ((not elt_is_var) or whole) and (elt_pred is None or elt_pred(f)):
            return 'ok', f
    return 'bad', cands[0]


def _sub_var(t, v):
    if isinstance(t, tuple):
        return tuple(_sub_var(x, v) for x in t)
    if isinstance(t, str):
        return t.replace('VAR', v)
    return t


def inline_single_assignment_locals(fn: ast.AST) -> ast.AST:
    """Copy of fn in which every local that is bound exactly once (plain `name = expr`, not in a loop, not a parameter,
    not augmented) is replaced by its value at its uses and the binding is dropped - "split into named pieces" undone."""
    import copy as _copy
    fn2 = _copy.deepcopy(fn)
    params = {a.arg for a in list(fn2.args.args) + list(fn2.args.kwonlyargs)} if hasattr(fn2, 'args') else set()
    for _ in range(6):
        counts: Dict[str, int] = {}
        values: Dict[str, ast.AST] = {}
        in_loop: Set[str] = set()
        for n in ast.walk(fn2):
            if isinstance(n, ast.Name) and isinstance(n.ctx, (ast.Store, ast.Del)):
                counts[n.id] = counts.get(n.id, 0) + 1
            if isinstance(n, (ast.For, ast.While)):
                for x in ast.walk(n):
                    if isinstance(x, ast.Name) and isinstance(x.ctx, ast.Store):
                        in_loop.add(x.id)
            if isinstance(n, (ast.comprehension,)):
                for x in ast.walk(n.target):
                    if isinstance(x, ast.Name):
                        in_loop.add(x.id)
        for st in getattr(fn2, 'body', []):
            if isinstance(st, ast.Assign) and len(st.targets) == 1 and isinstance(st.targets[0], ast.Name):
                values[st.targets[0].id] = st.value
        todo = {k: v for k, v in values.items() if counts.get(k) == 1 and k not in params and k not in in_loop
                and not any(isinstance(x, ast.Name) and x.id == k for x in ast.walk(v))}
        if not todo:
            break
        name, val = sorted(todo.items())[0]

        class R(ast.NodeTransformer):
            def visit_Name(self, node):
                if node.id == name and isinstance(node.ctx, ast.Load):
                    return ast.copy_location(_copy.deepcopy(val), node)
                return node
        fn2.body = [R().visit(st) for st in fn2.body if not (isinstance(st, ast.Assign) and len(st.targets) == 1 and isinstance(st.targets[0], ast.Name)
                                                              and st.targets[0].id == name)]
    ast.fix_missing_locations(fn2)
    return fn2



def lossy_groupings(idx, fi: FuncInfo) -> List[Tuple[ast.AST, str]]:
    """itertools.groupby(X, key) collected into a dict (one entry per key) although X is not sorted by that key: groupby only merges ADJACENT
    items, so for a key that occurs in several runs the dict keeps the last run and silently drops the others.  [(node, explanation)]"""
    out: List[Tuple[ast.AST, str]] = []
    for n in ast.walk(fi.node):
        if not (isinstance(n, ast.Call) and n.args):
            continue
        f = n.func
        nm = f.id if isinstance(f, ast.Name) else (f.attr if isinstance(f, ast.Attribute) else None)
        if nm != 'groupby':
            continue
        ext = idx.ext_name(fi.module, f)
        if ext not in ('itertools.groupby',):
            continue
        src = n.args[0]
        is_sorted = isinstance(src, ast.Call) and isinstance(src.func, ast.Name) and src.func.id == 'sorted'
        if is_sorted:
            continue
        # collected into a mapping?
        into_dict = False
        for m in ast.walk(fi.node):
            if isinstance(m, ast.DictComp) and any(g.iter is n for g in m.generators):
                into_dict = True
            if isinstance(m, ast.Call) and isinstance(m.func, ast.Name) and m.func.id == 'dict' and m.args and (
                    m.args[0] is n or (isinstance(m.args[0], (ast.GeneratorExp, ast.ListComp)) and any(g.iter is n for g in m.args[0].generators))):
                into_dict = True
        if into_dict:
            out.append((n, f'`{norm(n)[:70]}` is collected into a dict but `{norm(src)[:40]}` is not sorted by the grouping key: groupby merges only adjacent items, '
                           f'so when items of one group are interleaved with others the dict keeps the last run and drops the earlier ones'))
    return out


def unhashable_classes(idx) -> Dict[str, str]:
    """Class name -> why its instances cannot be hashed: a dataclass with generated __eq__ that is neither frozen nor unsafe_hash, or a class that
    defines __eq__ without __hash__ (Python then sets __hash__ to None) - inherited along the bases inside the package."""
    out: Dict[str, str] = {}
    by_name = {}
    for ci in idx.classes.values():
        by_name.setdefault(ci.name, ci)
    for ci in idx.classes.values():
        node = ci.node
        if not isinstance(node, ast.ClassDef):
            continue
        has_hash = any(isinstance(n, ast.FunctionDef) and n.name == '__hash__' for n in node.body) or any(
            isinstance(n, ast.Assign) and any(isinstance(t, ast.Name) and t.id == '__hash__' for t in n.targets) for n in node.body)
        if has_hash:
            continue
        for d in node.decorator_list:
            dn = norm(d.func if isinstance(d, ast.Call) else d)
            if dn.split('.')[-1] == 'dataclass':
                kws = {k.arg: k.value for k in d.keywords} if isinstance(d, ast.Call) else {}

                def truthy(k):
                    return isinstance(kws.get(k), ast.Constant) and bool(kws[k].value)
                eq_off = isinstance(kws.get('eq'), ast.Constant) and kws['eq'].value is False
                if not eq_off and not truthy('frozen') and not truthy('unsafe_hash'):
                    out[ci.name] = 'a dataclass with generated __eq__ that is not frozen'
        if ci.name not in out and any(isinstance(n, ast.FunctionDef) and n.name == '__eq__' for n in node.body):
            out[ci.name] = 'it defines __eq__ without __hash__'
    changed = True
    while changed:
        changed = False
        for ci in idx.classes.values():
            if ci.name in out or not isinstance(ci.node, ast.ClassDef):
                continue
            if any(isinstance(n, ast.FunctionDef) and n.name in ('__hash__', '__eq__') for n in ci.node.body):
                continue
            for b in ci.node.bases:
                bn = b.id if isinstance(b, ast.Name) else (b.attr if isinstance(b, ast.Attribute) else None)
                if bn in out and bn in by_name:
                    out[ci.name] = f'its base {bn} is unhashable ({out[bn]})'
                    changed = True
                    break
    return out


def annotation_element_classes(ann: Optional[ast.AST]) -> Optional[Set[str]]:
    """Element class names of a collection annotation (List[X], Optional[List[Union[X, Y]]], Tuple[X, ...]); None if it is not a collection annotation."""
    if ann is None:
        return None
    if isinstance(ann, ast.Constant) and isinstance(ann.value, str):
        try:
            ann = ast.parse(ann.value, mode='eval').body
        except SyntaxError:
            return None

    def names(e) -> Set[str]:
        out: Set[str] = set()
        for x in ast.walk(e):
            if isinstance(x, ast.Name):
                out.add(x.id)
            elif isinstance(x, ast.Attribute):
                out.add(x.attr)
            elif isinstance(x, ast.Constant) and isinstance(x.value, str) and x.value.isidentifier():
                out.add(x.value)
        return out
    for x in ast.walk(ann):
        if isinstance(x, ast.Subscript):
            head = x.value.id if isinstance(x.value, ast.Name) else (x.value.attr if isinstance(x.value, ast.Attribute) else '')
            if head in ('List', 'list', 'Tuple', 'tuple', 'Sequence', 'Iterable', 'Set', 'set', 'Collection'):
                return names(x.slice) - {'Union', 'Optional', 'List', 'Tuple'}
    return None


def expanded(ctx, mod: str, qual: str, depth: int = 3, keep_extra=()) -> FuncInfo:
    """The function as the rules read it: private helpers it calls (methods of its class, functions of the package) are expanded in place, so that an
    extract-method refactoring reads like the original.  The owner-link primitives and the public methods of the model classes stay calls.  When nothing was
    expanded the function of the index itself is returned (same node identities as the effect and path caches)."""
    cache = ctx.__dict__.setdefault('_expanded', {})
    key = (mod, qual, depth, tuple(sorted(keep_extra)))
    if key not in cache:
        from ..inline import inlined_info
        idx = ctx.idx
        raw = idx.func(mod, qual)
        keep = {'_set_database', '_unset_database'} | set(keep_extra)
        for ci in idx.classes.values():
            if ci.module.startswith(('pydbml._classes', 'pydbml.database')):
                keep |= {n for n in ci.methods if not n.startswith('_')}
        inl = inlined_info(idx, raw, depth, keep=keep)
        cache[key] = inl if getattr(inl.node, '_inlined_any', False) else raw
    return cache[key]


def qualified_name_obligation(ctx, col: Collector, rule: str, cons: str, gf: FuncInfo) -> None:
    """The qualifying helper writes "name" when the schema is the default one and "schema"."name" otherwise - decided per path on the abstract text the helper
    returns (helpers it calls read in place), not on the shape of its code."""
    from .. import strval
    from ..inline import inlined_info
    fx = inlined_info(ctx.idx, gf, 3)
    mp = [a.arg for a in fx.node.args.args][0]
    verdict, why, npaths = 'ok', '', 0
    for lits_, sk, tests_, exprs_ in strval.skeleton_paths(fx.node, 1, set(), {}):
        npaths += 1
        shown = strval.show_labelled(sk)
        is_default = any(l[0] == 'eq' and f'{mp}.schema' in l[1:] and any(str(x).startswith(("'", '"')) for x in l[1:]) for l in lits_)
        not_default = any(l[0] == 'not' and isinstance(l[1], tuple) and l[1][0] == 'eq' and f'{mp}.schema' in l[1][1:] for l in lits_)
        want_short = f'"◦⟨{mp}.name⟩"'
        want_long = f'"◦⟨{mp}.schema⟩"."◦⟨{mp}.name⟩"'
        if '?' in shown or (not is_default and not not_default):
            if shown == want_long:
                continue        # always fully qualified on this path: reads back the same
            if verdict == 'ok':
                verdict, why = 'unk', f'a path returns `{shown}` under {lits_}; cannot relate it to the schema test'
        elif is_default and shown not in (want_short, want_long):
            verdict, why = 'bad', f'for the default schema the helper returns `{shown}`, expected `{want_short}`'
        elif not_default and shown != want_long:
            verdict, why = 'bad', f'for a schema other than the default one the helper returns `{shown}`, expected `{want_long}`: the schema is lost, misplaced or not quoted'
    if npaths == 0:
        verdict, why = 'unk', 'no returning path could be evaluated'
    if verdict == 'ok':
        col.ok(rule, cons, f'the helper writes "name" for the default schema and "schema"."name" otherwise ({npaths} paths)', node=gf.node, file=gf.file)
    elif verdict == 'bad':
        col.bad(rule, cons, f'{gf.qualname} does not write "schema"."name" for every schema other than the default one (or does not quote both parts): {why}', node=gf.node, file=gf.file)
    else:
        col.unk(rule, cons, f'{gf.qualname}: {why}', node=gf.node, file=gf.file)
