"""C05 - a parsed database is one consistently linked object graph."""
from __future__ import annotations

import ast
from typing import Dict, List, Optional, Set, Tuple

from ..core import Collector, guarded, norm, Unrecognised, AnchorMissing
from ..pyindex import walk_no_nested, access_path, FuncInfo
from ..paths import walk_event, Ev
from ..cond import term, conjuncts
from .common import paths_of, event_calls
from .dbrules import resolution_guards
from .c18 import kinds_of_test, holder_sides, const_names

EXPLANATION = (
    'Back-pointers: every Database.add_* sets the owner on the object it stores and every Table.add_column/add_index sets '
    '.table on the object it appends (obligations shared with C09); every class with a note stores it through a setter that sets '
    'note.parent (sibling rule over the six note-bearing classes). Identity: the functions that create links (Table.__getitem__, '
    'locate_table, ReferenceBlueprint.build, Reference.__init__, TableBlueprint.build, ColumnBlueprint.build, '
    'TableGroupBlueprint.build) hand on elements of the owning container - origin tags Element/Lookup - and never a copy or a '
    'newly constructed object. Resolution: every locate_table call passes the schema and name of one and the same side; '
    'locate_table looks up the bare name (alias key) and "<schema>.<name>" in the table_dict of the database being built and '
    'raises when both miss; the implicit schema is one constant at all sites that default or compare it. Enum types: the column '
    'type is replaced by an element of database.enums only under a test that equates both enum.name and enum.schema with the '
    'name/schema derived from the type text (schema = the default constant for a bare type), inside a scan of all enums. '
    'Wiring: every blueprint whose build() reads self.parser gets .parser = self in parse_blueprint. Ownership queries: '
    'Table.get_refs filters db.refs on table1 == self, Column.get_refs on membership in col1, and the SQL key-holder dispatch '
    'compares table objects and agrees, kind by kind, exhaustively and exclusively, with the FOREIGN KEY dispatch.')
RULE_TEXT = 'one obligation per back-pointer site, note setter, link site (origin tag), locate_table call, default-schema site, enum-match clause, parser-wiring site and key-holder kind'
ASSUMPTIONS = ['decides the structural conditions per link-creating function; consistency of the whole graph for every document is not decided',
               'the order of the two lookups in locate_table is not an obligation (key spaces overlap only for quoted names containing a dot)']
ENGINES = ['pyindex', 'paths', 'specialise', 'peval']
TECHNIQUE = 'static analysis (ast): origin-tag dataflow on link-creating functions, guard/condition normal forms by path enumeration, sibling-constant and dispatch-table agreement rules; per-class specialisation of parse_blueprint (which objects get the parser); spelling-set analysis of enum matching; partial evaluation per kind of the key-holder selection'

BP = 'pydbml.parser.blueprints'
PARSER = 'pydbml.parser.parser'
COPY_FUNCS = {'copy', 'deepcopy', 'replace'}


def origin(e: ast.AST, fn: ast.AST, depth: int = 0) -> Tuple[str, str]:
    """Origin tag of the object an expression evaluates to inside function fn:
    ('elem', container) loop variable over / subscript of a container; ('lookup', call) result of a lookup call;
    ('fresh', what) newly constructed or copied; ('param', name); ('unknown', src)."""
    if depth > 6:
        return 'unknown', norm(e)
    if isinstance(e, ast.Name):
        args = fn.args
        params = [a.arg for a in list(args.posonlyargs) + list(args.args) + list(args.kwonlyargs)]
        # loop variables
        for n in ast.walk(fn):
            if isinstance(n, (ast.For, ast.comprehension)) and isinstance(n.target, ast.Name) and n.target.id == e.id:
                it = n.iter
                if isinstance(it, ast.Call) and isinstance(it.func, ast.Name) and it.func.id in ('chain', 'list', 'tuple', 'iter', 'reversed'):
                    return 'elem', ','.join(norm(a).lstrip('*') for a in it.args)
                if isinstance(it, ast.Tuple):
                    return 'elem', ','.join(norm(a).lstrip('*') for a in it.elts)
                if isinstance(it, ast.BoolOp):
                    it = it.values[0]
                return 'elem', norm(it)
        assigns = [n for n in walk_no_nested(fn) if isinstance(n, ast.Assign) and len(n.targets) == 1 and isinstance(n.targets[0], ast.Name)
                   and n.targets[0].id == e.id]
        if len(assigns) == 1:
            return origin(assigns[0].value, fn, depth + 1)
        if len(assigns) > 1:
            tags = {origin(a.value, fn, depth + 1) for a in assigns}
            if len(tags) == 1:
                return tags.pop()
            kinds = {t[0] for t in tags}
            if 'fresh' in kinds:
                return [t for t in tags if t[0] == 'fresh'][0]
            return 'mixed', ' | '.join(sorted(t[1] for t in tags))
        if e.id in params:
            return 'param', e.id
        return 'unknown', e.id
    if isinstance(e, ast.Subscript):
        return 'elem', norm(e.value)
    if isinstance(e, ast.Call):
        f = e.func
        name = f.id if isinstance(f, ast.Name) else (f.attr if isinstance(f, ast.Attribute) else '')
        if name in COPY_FUNCS or (isinstance(f, ast.Attribute) and f.attr in COPY_FUNCS):
            return 'fresh', f'{norm(e)[:50]} (a copy)'
        if name[:1].isupper():
            return 'fresh', f'{norm(e)[:50]} (a new object)'
        if name in ('get', 'locate_table', '__getitem__', 'next', 'pop'):
            return 'lookup', norm(e)[:60]
        if name in ('list', 'tuple'):
            return origin(e.args[0], fn, depth + 1) if e.args else ('fresh', 'empty')
        return 'call', norm(e)[:60]
    if isinstance(e, ast.IfExp):
        a, b = origin(e.body, fn, depth + 1), origin(e.orelse, fn, depth + 1)
        if a[0] == 'fresh' or b[0] == 'fresh':
            # [x] if isinstance(x, C) else list(x): a fresh list around the same elements is fine; judged by the caller
            return ('wrap', f'{a[1]} | {b[1]}')
        return a if a == b else ('mixed', f'{a[1]} | {b[1]}')
    if isinstance(e, (ast.List, ast.Tuple)):
        tags = [origin(x, fn, depth + 1) for x in e.elts]
        if any(t[0] == 'fresh' for t in tags):
            return [t for t in tags if t[0] == 'fresh'][0]
        return ('list', ','.join(t[1] for t in tags))
    if isinstance(e, (ast.ListComp, ast.GeneratorExp)):
        return origin(e.elt, _CompScope(fn, e), depth + 1)
    if isinstance(e, ast.Attribute):
        return 'attr', norm(e)
    return 'unknown', norm(e)[:60]


class _CompScope:
    """Function-like wrapper so that comprehension variables resolve inside origin()."""
    def __init__(self, fn, comp):
        self.fn = fn
        self.comp = comp
        self.args = fn.args
        self.body = getattr(fn, 'body', [])
        self._fields = ('fn',)

    def __iter__(self):  # pragma: no cover
        return iter(())


def _walk(fn):
    if isinstance(fn, _CompScope):
        yield from ast.walk(fn.comp)
        yield from _walk(fn.fn)
    else:
        yield from ast.walk(fn)


def run(ctx, col: Collector):
    idx = ctx.idx

    # ---------------------------------------------------------------- C05-backptr (shared with C09)
    def backptr():
        sub = ctx.sub('c09', col.prop)
        n = 0
        for o in sub.obs:
            if o.rule == 'C09-backptr' and ('sets-owner' in o.construct or 'append-and-own' in o.construct or o.construct.endswith(':stores')
                                            or o.status == 'unrecognised'):
                n += 1
                col.obs.append(type(o)(col.prop, 'C05-backptr', o.construct, o.status, o.msg, o.file, o.line, o.extra))
        col.floor('C05-backptr', 'owner back-pointer sites', n, 8)
        # notes: sibling rule
        n_notes = 0
        for ci in sorted(idx.classes.values(), key=lambda c: c.id):
            if not ci.module.startswith('pydbml._classes'):
                continue
            init = ci.methods.get('__init__')
            if init is None or 'note' not in [a.arg for a in init.node.args.args]:
                continue
            n_notes += 1
            setter = ci.setters.get('note')
            prop = ci.props.get('note')
            file = ci.module.replace('.', '/') + '.py'
            if setter is None or prop is None:
                col.bad('C05-backptr', f'{ci.name}.note:setter', f'{ci.name} stores its note as a plain attribute: the note does not point back to its '
                        f'{ci.name} (note.parent stays None)', node=ci.node, file=file)
                continue
            sp = [a.arg for a in setter.node.args.args]
            val = sp[1]
            stores_parent = any(isinstance(n, ast.Assign) and norm(n.targets[0]) == f'{val}.parent' and norm(n.value) == sp[0]
                                for n in ast.walk(setter.node))
            stores_val = [n for n in ast.walk(setter.node) if isinstance(n, ast.Assign) and norm(n.targets[0]).startswith(f'{sp[0]}._')
                          and norm(n.value) == val]
            col.check(stores_parent, 'C05-backptr', f'{ci.name}.note:sets-parent', f'{ci.name}.note setter sets note.parent = self',
                      f'{ci.name}.note setter does not set `{val}.parent = {sp[0]}`: the note does not point back to its owner', node=setter.node, file=file)
            # ... on every path on which a Note was given: the store may be skipped only for None / a non-Note value, not by the truth value of the note
            # (Note defines __bool__: a note with empty text is falsy but still needs its owner)
            if stores_parent:
                note_cls = idx.classes.get('pydbml._classes.note:Note')
                falsy_notes = note_cls is not None and any(m in note_cls.methods for m in ('__bool__', '__len__'))
                worst = None
                for path in paths_of(setter, 1):
                    if path[-1].kind == 'raise':
                        continue
                    has = any(ev.kind == 'stmt' and isinstance(ev.node, ast.Assign) and norm(ev.node.targets[0]) == f'{val}.parent' for ev in path)
                    if has:
                        continue
                    lits = [c for ev in path if ev.kind == 'test' for c in conjuncts(term(ev.node, ev.outcome))]
                    excused = ('none', val) in lits or any(l[0] == 'not' and isinstance(l[1], tuple) and l[1][0] == 'isinstance' and l[1][1] == val for l in lits)
                    if excused:
                        continue
                    if ('not', ('truthy', val)) in lits and falsy_notes:
                        worst = worst or ('bad', f'the back-pointer is skipped when `{val}` is falsy, and a Note with empty text is falsy (Note.__bool__): such a note keeps parent None')
                    elif not lits:
                        worst = worst or ('bad', 'a path through the setter never sets the back-pointer')
                    else:
                        worst = worst or ('unk', f'the back-pointer is skipped under {lits}, which this rule cannot relate to "no note was given"')
                cons_ = f'{ci.name}.note:sets-parent-always'
                if worst is None:
                    col.ok('C05-backptr', cons_, 'every path that receives a Note sets its parent', node=setter.node, file=file)
                elif worst[0] == 'bad':
                    col.bad('C05-backptr', cons_, f'{ci.name}.note setter: {worst[1]}', node=setter.node, file=file)
                else:
                    col.unk('C05-backptr', cons_, f'{ci.name}.note setter: {worst[1]}', node=setter.node, file=file)
            col.check(bool(stores_val), 'C05-backptr', f'{ci.name}.note:stores-same-object', 'the setter keeps the very object it was given',
                      f'{ci.name}.note setter does not store `{val}` itself', node=setter.node, file=file)
            # __init__ goes through the setter
            direct = [n for n in walk_no_nested(init.node) if isinstance(n, ast.Assign) and norm(n.targets[0]) == 'self._note']
            via = [n for n in walk_no_nested(init.node) if isinstance(n, ast.Assign) and norm(n.targets[0]) == 'self.note']
            col.check(bool(via) and not direct, 'C05-backptr', f'{ci.name}.__init__:note-through-setter', 'the constructor assigns the note through the setter',
                      f'{ci.name}.__init__ writes self._note directly (or never sets the note): the back-pointer is not set for notes given at construction',
                      node=init.node, file=file)
        col.floor('C05-backptr', 'note-bearing classes', n_notes, 6)
    guarded(col, 'C05-backptr', 'back-pointers', backptr)

    # ---------------------------------------------------------------- C05-identity
    def identity():
        def judge(rule_cons: str, tag: Tuple[str, str], want_kinds: Set[str], want_src: Optional[str], node, file, what: str):
            kind, src = tag
            ok = kind in want_kinds and (want_src is None or want_src in src)
            if kind == 'fresh':
                col.bad('C05-identity', rule_cons, f'{what}: the linked object is {src} instead of the object held by its owner - identity of the '
                        f'graph is lost', node=node, file=file)
            elif ok:
                col.ok('C05-identity', rule_cons, f'{what}: {kind} of `{src}`', node=node, file=file)
            elif kind in ('unknown', 'mixed', 'call', 'attr', 'param', 'wrap', 'list'):
                col.unk('C05-identity', rule_cons, f'{what}: cannot establish where `{src}` comes from (expected an element of {want_src})', node=node, file=file)
            else:
                col.bad('C05-identity', rule_cons, f'{what}: the linked object comes from `{src}` ({kind}), expected an element of `{want_src}`', node=node, file=file)

        # Table.__getitem__: returns elements of self.columns
        gi = idx.func('pydbml._classes.table', 'Table.__getitem__')
        for r in [n for n in walk_no_nested(gi.node) if isinstance(n, ast.Return) and n.value is not None]:
            judge(f'Table.__getitem__:return:{norm(r.value)}', origin(r.value, gi.node), {'elem'}, 'self.columns', r, gi.file, 'Table[...]')
        # locate_table: returns values of database.table_dict
        lt = idx.func(PARSER, 'PyDBMLParser.locate_table')
        for r in [n for n in walk_no_nested(lt.node) if isinstance(n, ast.Return) and n.value is not None]:
            tag = origin(r.value, lt.node)
            if tag[0] == 'mixed' and all('table_dict' in p for p in tag[1].split(' | ')):
                tag = ('lookup', tag[1])
            judge('locate_table:return', tag, {'lookup', 'elem'}, 'self.database.table_dict', r, lt.file, 'locate_table')
        # ReferenceBlueprint.build: endpoints are table[col] subscripts of located tables (helpers inlined, names resolved by dataflow)
        from .dbrules import endpoint_resolution
        rb = idx.func(BP, 'ReferenceBlueprint.build')
        ep, rfn = endpoint_resolution(ctx, rb)
        for side in ('1', '2'):
            info = ep[side]
            cons = f'ReferenceBlueprint.build:col{side}'
            fresh = [origin(c.elt, rfn) for c in info['comps'] if origin(c.elt, rfn)[0] == 'fresh']
            if fresh:
                col.bad('C05-identity', cons, f'reference endpoint col{side}: the linked object is {fresh[0][1]} instead of the Column held by the table - identity of the graph is lost',
                        node=rb.node, file=rb.file)
            elif info['subscripted'] and info['lookups'] and not info['other_sources']:
                col.ok('C05-identity', cons, f'reference endpoint col{side}: elements of the table returned by locate_table', node=rb.node, file=rb.file)
            elif info['comps'] and info['lookups'] and not info['other_sources'] and all(
                    isinstance(c.generators[0].iter, ast.Attribute) and c.generators[0].iter.attr == 'columns' and norm(c.elt) == norm(c.generators[0].target)
                    for c in info['comps']):
                col.ok('C05-identity', cons, f'reference endpoint col{side}: elements of the column list of the table returned by locate_table', node=rb.node, file=rb.file)
            elif info['comps'] and not info['subscripted']:
                tags = [origin(c.elt, rfn) for c in info['comps']]
                col.unk('C05-identity', cons, f'reference endpoint col{side}: cannot establish that `{norm(info["comps"][0].elt)[:50]}` ({tags[0][0]}) is the table\'s own Column', node=rb.node, file=rb.file)
            else:
                col.unk('C05-identity', cons, f'reference endpoint col{side}: cannot see how the endpoint list is built', node=rb.node, file=rb.file)
        # Reference.__init__ keeps the elements
        ri = idx.func('pydbml._classes.reference', 'Reference.__init__')
        for side in ('col1', 'col2'):
            st = [n for n in walk_no_nested(ri.node) if isinstance(n, ast.Assign) and norm(n.targets[0]) == f'self.{side}']
            if len(st) != 1:
                raise Unrecognised(f'Reference.__init__ assigns self.{side} {len(st)} times', ri.node)
            v = st[0].value
            elems_ok = True
            why = ''
            for n in ast.walk(v):
                if isinstance(n, ast.Call):
                    f = n.func
                    nm = f.id if isinstance(f, ast.Name) else (f.attr if isinstance(f, ast.Attribute) else '')
                    if nm in COPY_FUNCS or (nm[:1].isupper()):
                        elems_ok = False
                        why = norm(n)
                if isinstance(n, (ast.ListComp, ast.GeneratorExp)) and not (isinstance(n.elt, ast.Name)):
                    elems_ok = False
                    why = norm(n)
            uses = any(isinstance(n, ast.Name) and n.id == side for n in ast.walk(v))
            col.check(elems_ok and uses, 'C05-identity', f'Reference.__init__:{side}', f'self.{side} holds the very Column objects passed in',
                      f'Reference.__init__ stores `{norm(v)[:70]}` as {side}: the endpoint columns are rebuilt ({why}) instead of kept', node=st[0], file=ri.file)
        # TableBlueprint.build: index subjects are elements of result.columns
        from ..inline import inlined_info
        tb = inlined_info(idx, idx.func(BP, 'TableBlueprint.build'), depth=2)
        # the list that becomes <index>.subjects, whatever it is called: what is appended to it
        subj_lists = {norm(a.value) for a in ast.walk(tb.node) if isinstance(a, ast.Assign) and len(a.targets) == 1 and isinstance(a.targets[0], ast.Attribute)
                      and a.targets[0].attr == 'subjects' and isinstance(a.value, ast.Name)}
        # (a helper's result variable stands for the list the helper built)
        for a in ast.walk(tb.node):
            if isinstance(a, ast.Assign) and len(a.targets) == 1 and isinstance(a.targets[0], ast.Name) and norm(a.targets[0]) in subj_lists and isinstance(a.value, ast.Name):
                subj_lists.add(a.value.id)
        apps = [n for n in ast.walk(tb.node) if isinstance(n, ast.Call) and isinstance(n.func, ast.Attribute) and n.func.attr == 'append'
                and (norm(n.func.value) in subj_lists or 'subject' in norm(n.func.value))]
        if not apps and any(isinstance(a, ast.Assign) and isinstance(a.targets[0], ast.Attribute) and a.targets[0].attr == 'subjects' for a in ast.walk(tb.node)):
            raise Unrecognised('TableBlueprint.build assigns <index>.subjects from something this rule cannot follow', tb.node)
        n_col = 0
        from .common import value_sources as _vs
        for a in apps:
            srcs = [a.args[0]]
            if isinstance(a.args[0], ast.Name):
                # a variable that holds either kind of subject (the exits of an inlined helper): each assignment is judged on its own
                vs_ = _vs(tb.node, a.args[0].id)
                if vs_ and len(vs_) > 1:
                    srcs = list(vs_)
            for src_ in srcs:
                tag = origin(src_, tb.node)
                if tag[0] == 'call' and '.build()' in tag[1]:
                    continue    # expressions are built fresh per index (not links)
                n_col += 1
                judge(f'TableBlueprint.build:subject:{norm(a.args[0]) if len(srcs) == 1 else norm(src_)}', tag, {'elem'}, '.columns', a, tb.file, 'index subject')
        col.check(n_col >= 1, 'C05-identity', 'TableBlueprint.build:subjects-linked', 'index subjects are linked to columns',
                  'TableBlueprint.build never appends a column object to the index subjects: subjects stay names', node=tb.node, file=tb.file)
        # the table that owns the subject columns is the table being built
        col_loops = [n for n in ast.walk(tb.node) if isinstance(n, ast.For) and norm(n.iter).endswith('.columns')]
        res_var = next((norm(n.targets[0]) for n in walk_no_nested(tb.node) if isinstance(n, ast.Assign) and isinstance(n.value, ast.Call)
                        and norm(n.value.func) == 'Table'), None)
        col.check(any(norm(l.iter) == f'{res_var}.columns' for l in col_loops), 'C05-identity', 'TableBlueprint.build:own-columns',
                  'subjects are searched among the columns of the table being built',
                  f'index subjects are not searched in `{res_var}.columns` (the table under construction)', node=tb.node, file=tb.file)
        # ColumnBlueprint.build: type becomes an element of database.enums
        cb = inlined_info(idx, idx.func(BP, 'ColumnBlueprint.build'), depth=3)
        st = [n for n in ast.walk(cb.node) if isinstance(n, ast.Assign) and norm(n.targets[0]) == 'self.type']
        if not st:
            col.bad('C05-identity', 'ColumnBlueprint.build:enum-link', 'ColumnBlueprint.build never replaces the type name by the Enum object',
                    node=cb.node, file=cb.file)
        for s in st:
            judge('ColumnBlueprint.build:enum-link', origin(s.value, cb.node), {'elem', 'lookup'}, 'enums', s, cb.file, 'enum-typed column')
        # TableGroupBlueprint.build: items are located tables
        gb = idx.func(BP, 'TableGroupBlueprint.build')
        apps = [n for n in ast.walk(gb.node) if isinstance(n, ast.Call) and isinstance(n.func, ast.Attribute) and n.func.attr == 'append']
        col.check(bool(apps), 'C05-identity', 'TableGroupBlueprint.build:collects', 'group items are collected', 'TableGroupBlueprint.build collects no items',
                  node=gb.node, file=gb.file)
        for a in apps:
            judge(f'TableGroupBlueprint.build:item:{norm(a.args[0])}', origin(a.args[0], gb.node), {'lookup'}, 'locate_table', a, gb.file, 'table group item')
        tg = [c for c in ast.walk(gb.node) if isinstance(c, ast.Call) and norm(c.func) == 'TableGroup']
        if tg:
            kw = {k.arg: k.value for k in tg[0].keywords}
            recv = {norm(a.func.value) for a in apps}
            col.check('items' in kw and norm(kw['items']) in recv, 'C05-identity', 'TableGroupBlueprint.build:passes-items',
                      'the located tables are passed to TableGroup', f'TableGroup(items={norm(kw.get("items")) if "items" in kw else "?"}) does not receive the located tables',
                      node=tg[0], file=gb.file)
    guarded(col, 'C05-identity', 'identity-flow', identity)

    # ---------------------------------------------------------------- C05-resolve
    resolution_guards(ctx, col, 'C05-resolve')

    def locate_calls():
        from .dbrules import endpoint_resolution
        rb = idx.func(BP, 'ReferenceBlueprint.build')
        ep, fn = endpoint_resolution(ctx, rb)
        n = 0
        for side in ('1', '2'):
            info = ep[side]
            want = [f'self.schema{side}', f'self.table{side}']
            for call, args, recv in info['lookups']:
                n += 1
                col.check(recv == 'self.parser', 'C05-resolve', f'ReferenceBlueprint.build:side{side}:locate:receiver',
                          'resolved against the parser (database) of this parse', f'locate_table is called on `{recv}`', node=call, file=rb.file)
                col.check(args == want, 'C05-resolve', f'ReferenceBlueprint.build:side{side}:locate({", ".join(args)})',
                          'schema and table name of one and the same side are resolved together',
                          f'the table of side {side} is resolved with locate_table({", ".join(args)}) instead of ({", ".join(want)}): schema and name come from different sides '
                          f'(or not from the blueprint), so the endpoint may land in the wrong schema', node=call, file=rb.file)
            cons = f'ReferenceBlueprint.build:table{side}:single-source'
            if info['other_sources']:
                col.bad('C05-resolve', cons, f'the table whose columns become col{side} can also be `{info["other_sources"][0][:60]}` (not the result of '
                        f'locate_table(self.schema{side}, self.table{side})): on some path side {side} is not resolved from its own schema and name', node=rb.node, file=rb.file)
            elif info['lookups']:
                col.ok('C05-resolve', cons, f'the side {side} table is always the result of locate_table', node=rb.node, file=rb.file)
            else:
                col.unk('C05-resolve', cons, f'cannot see where the table of side {side} comes from', node=rb.node, file=rb.file)
        col.floor('C05-resolve', 'locate_table call sites of reference endpoints', n, 2)
        gb = idx.func(BP, 'TableGroupBlueprint.build')
        lc = [c for c in ast.walk(gb.node) if isinstance(c, ast.Call) and isinstance(c.func, ast.Attribute) and c.func.attr == 'locate_table']
        col.check(len(lc) == 1 and len(lc[0].args) == 2 and norm(lc[0].func.value) == 'self.parser', 'C05-resolve', 'TableGroupBlueprint.build:locate', 'group items use the same resolver',
                  'TableGroupBlueprint.build does not resolve its items with self.parser.locate_table(schema, name)', node=gb.node, file=gb.file)
    guarded(col, 'C05-resolve', 'locate-calls', locate_calls)

    def endpoint_names():
        # the endpoint columns are the columns addressed: the builder must not make several names out of one quoted name (rule shared with C08-precondition / C01-resolve)
        from .c08 import split_of_quoted_name
        split_of_quoted_name(ctx, col, ctx.grammar, 'C05-resolve', 'reference-endpoint')
    guarded(col, 'C05-resolve', 'endpoint-names', endpoint_names)

    # ---------------------------------------------------------------- C05-schema (default-schema constant)
    def default_schema():
        sites: List[Tuple[str, object, ast.AST, str]] = []
        bpmod = idx.module(BP)
        for cname, fields in (('ReferenceBlueprint', ('schema1', 'schema2')), ('TableBlueprint', ('schema',)), ('EnumBlueprint', ('schema',))):
            ci = idx.cls(BP, cname)
            for f in fields:
                v = ci.class_attrs.get(f)
                sites.append((f'{cname}.{f} default', v.value if isinstance(v, ast.Constant) else None, v or ci.node, bpmod.relpath))
        for mod, cname in (('pydbml._classes.table', 'Table'), ('pydbml._classes.enum', 'Enum')):
            init = idx.cls(mod, cname).methods['__init__']
            a = init.node.args
            names = [x.arg for x in a.args]
            defaults = dict(zip(names[len(names) - len(a.defaults):], a.defaults))
            d = defaults.get('schema')
            sites.append((f'{cname}.__init__ schema default', d.value if isinstance(d, ast.Constant) else None, d or init.node, init.file))
        # literals used as implicit schema in the two builds
        for cname in ('ColumnBlueprint', 'TableGroupBlueprint'):
            from ..inline import inlined_info
            b = inlined_info(idx, idx.func(BP, f'{cname}.build'), depth=2)
            lits = []
            for n in ast.walk(b.node):
                if isinstance(n, ast.Tuple) and len(n.elts) == 2 and isinstance(n.elts[0], ast.Constant) and isinstance(n.elts[0].value, str):
                    lits.append(n.elts[0])
            # `schema = 'public'` / `schema, name = 'public', x` spelled as separate assignments
            for n in ast.walk(b.node):
                if isinstance(n, ast.Assign) and len(n.targets) == 1 and isinstance(n.targets[0], ast.Name) and 'schema' in n.targets[0].id.lower() \
                        and isinstance(n.value, ast.Constant) and isinstance(n.value.value, str):
                    lits.append(n.value)
            if not lits:
                raise Unrecognised(f'{cname}.build has no `(<default schema>, name)` fallback', b.node)
            for l in lits:
                sites.append((f'{cname}.build implicit schema', l.value, l, b.file))
        # comparisons in the name helpers
        for mod, fn in (('pydbml.renderer.dbml.default.table', 'get_full_name_for_dbml'), ('pydbml.renderer.sql.default.utils', 'get_full_name_for_sql'),
                        ('pydbml.renderer.sql.default.note', 'generate_comment_on')):
            sym_ = idx.resolve(mod, fn)         # the helper may be defined in another module and imported here
            fi = idx.funcs.get(f'{sym_.module}:{sym_.name}') if sym_ is not None and sym_.kind == 'func' else None
            if fi is None:
                fi = idx.func(mod, fn)
            from ..inline import inlined_info as _ii2
            fi = _ii2(idx, fi, 3)               # a shared qualifying helper is read in place
            for n in ast.walk(fi.node):
                if isinstance(n, ast.Compare) and len(n.ops) == 1 and isinstance(n.ops[0], (ast.Eq, ast.NotEq)) and 'schema' in norm(n.left) \
                        and isinstance(n.comparators[0], ast.Constant):
                    sites.append((f'{fn} comparison', n.comparators[0].value, n, fi.file))
        col.floor('C05-schema', 'default-schema sites', len(sites), 10)
        vals = [v for _, v, _, _ in sites]
        from collections import Counter
        major = Counter(v for v in vals if v is not None).most_common(1)[0][0]
        for name, v, node, file in sites:
            col.check(v == major, 'C05-schema', name, f'implicit schema is {major!r}',
                      f'{name} uses {v!r} while the other sites use {major!r}: a table/enum addressed without schema is not the one declared without schema',
                      node=node if isinstance(node, ast.AST) else None, file=file)
    guarded(col, 'C05-schema', 'default-schema', default_schema)

    # ---------------------------------------------------------------- C05-enum
    def enum_match():
        from ..inline import inlined_info as _ii
        cb = _ii(idx, idx.func(BP, 'ColumnBlueprint.build'), 3)
        # whatever the search looks like: a (schema, name) key built for the type name may take its schema only from the type text or from the default-schema
        # constant - a key that pairs the type name with some other schema (the table's, a parameter) makes a bare type name mean different enums in different places
        locals_from_type = {norm(a.targets[0]) for a in ast.walk(cb.node) if isinstance(a, ast.Assign) and len(a.targets) == 1 and isinstance(a.targets[0], ast.Name)
                            and any(norm(x) == 'self.type' for x in ast.walk(a.value))}
        for a in ast.walk(cb.node):
            if isinstance(a, ast.Assign) and isinstance(a.targets[0], ast.Tuple) and any(norm(x) == 'self.type' for x in ast.walk(a.value)):
                locals_from_type |= {norm(t) for t in a.targets[0].elts}
        params_ = {x.arg for x in cb.node.args.args[1:]} | {x.arg for x in cb.node.args.kwonlyargs}

        def from_type(e):
            return any(norm(x) == 'self.type' or (isinstance(x, ast.Name) and x.id in locals_from_type) for x in ast.walk(e))
        for tup in [t for t in ast.walk(cb.node) if isinstance(t, ast.Tuple) and len(t.elts) == 2 and isinstance(t.ctx, ast.Load)]:
            sch, nm_ = tup.elts
            if from_type(nm_) and not from_type(sch) and not isinstance(sch, ast.Constant):
                foreign = any((isinstance(x, ast.Name) and x.id in params_) or (isinstance(x, ast.Attribute) and norm(x).startswith('self.') and norm(x) != 'self.type')
                              for x in ast.walk(sch))
                if foreign:
                    col.bad('C05-enum', 'ColumnBlueprint.build:schema-provenance', f'the type name is paired with the schema `{norm(sch)}` in the lookup key `{norm(tup)}`: '
                            f'an unqualified type is resolved against a schema other than the default one, so the same bare type name binds to different enums '
                            f'depending on where it is written (and a rendered `"name"` no longer reads back as the public enum)', node=tup, file=cb.file)
                    return
        stores = [n for n in ast.walk(cb.node) if isinstance(n, ast.Assign) and norm(n.targets[0]) == 'self.type']
        if not stores:
            col.bad('C05-enum', 'ColumnBlueprint.build:links-enum', 'the column type is never replaced by an Enum object', node=cb.node, file=cb.file)
            return
        # --- the type text compared AS WRITTEN with spellings built from each enum (`self.type in (e.name, f'{e.schema}.{e.name}')`, an index keyed by such a
        # spelling).  What must hold: an enum of the default schema answers to `name` and to `<default>.name`, any other enum only to `schema.name`.
        n_stores = {}
        for x_ in ast.walk(cb.node):
            if isinstance(x_, ast.Name) and isinstance(x_.ctx, ast.Store):
                n_stores[x_.id] = n_stores.get(x_.id, 0) + 1
        # (a local that is `self.type` on one branch and a part of it on another is not the text as written)
        raw = {'self.type'} | {norm(a.targets[0]) for a in ast.walk(cb.node) if isinstance(a, ast.Assign) and len(a.targets) == 1 and isinstance(a.targets[0], ast.Name)
                               and norm(a.value) == 'self.type' and n_stores.get(a.targets[0].id, 0) == 1}
        enum_vars = {norm(n.target) for n in ast.walk(cb.node) if isinstance(n, (ast.For, ast.comprehension)) and norm(n.iter).endswith('.enums') and isinstance(n.target, ast.Name)}

        def spelling(k: ast.AST, ev_: str, public: bool):
            if isinstance(k, ast.Attribute) and norm(k) == f'{ev_}.name':
                return 'NAME'
            parts = None
            if isinstance(k, ast.JoinedStr):
                parts = [norm(v.value) if isinstance(v, ast.FormattedValue) else repr(v.value) for v in k.values]
            elif isinstance(k, ast.BinOp) and isinstance(k.op, ast.Add):
                from ..strctx import flatten_concat
                parts = [norm(v) if not isinstance(v, ast.Constant) else repr(v.value) for v in flatten_concat(k)]
            if parts == [f'{ev_}.schema', "'.'", f'{ev_}.name']:
                return 'QUAL'
            if parts and len(parts) == 2 and parts[1] == f'{ev_}.name' and parts[0].startswith("'") and parts[0].endswith(".'"):
                return 'QUAL' if public and parts[0] in ("'public.'",) else None      # a literal schema prefix
            if isinstance(k, ast.IfExp):
                t = term(k.test, True)
                if t[0] == 'eq' and f'{ev_}.schema' in t[1:] and any(str(x).startswith(("'", '"')) for x in t[1:]):
                    return spelling(k.body if public else k.orelse, ev_, public)
                if t[0] == 'not' and isinstance(t[1], tuple) and t[1][0] == 'eq' and f'{ev_}.schema' in t[1][1:]:
                    return spelling(k.orelse if public else k.body, ev_, public)
            return None
        raw_cmp = []
        for c in ast.walk(cb.node):
            if isinstance(c, ast.Compare) and len(c.ops) == 1:
                l_, r_ = c.left, c.comparators[0]
                if isinstance(c.ops[0], ast.Eq):
                    for a_, b_ in ((l_, r_), (r_, l_)):
                        if norm(a_) in raw and any(isinstance(x, ast.Name) and x.id in enum_vars for x in ast.walk(b_)):
                            raw_cmp.append((c, [b_]))
                elif isinstance(c.ops[0], ast.In) and norm(l_) in raw and isinstance(r_, (ast.Tuple, ast.List, ast.Set)) \
                        and any(isinstance(x, ast.Name) and x.id in enum_vars for x in ast.walk(r_)):
                    raw_cmp.append((c, list(r_.elts)))
        # ... or looked up in an index filled from the enums: `D[K] = e` / `D.setdefault(K, e)` in a loop over the enums, then `D.get(<type text>)` / `D[<type text>]`
        index_keys = None
        if not raw_cmp:
            for c in ast.walk(cb.node):
                dname = None
                if isinstance(c, ast.Call) and isinstance(c.func, ast.Attribute) and c.func.attr == 'get' and isinstance(c.func.value, ast.Name) and c.args and norm(c.args[0]) in raw:
                    dname = c.func.value.id
                elif isinstance(c, ast.Subscript) and isinstance(c.ctx, ast.Load) and isinstance(c.value, ast.Name) and norm(c.slice) in raw:
                    dname = c.value.id
                if dname is None:
                    continue
                found = []
                for lp in [n for n in ast.walk(cb.node) if isinstance(n, ast.For) and norm(n.iter).endswith('.enums') and isinstance(n.target, ast.Name)]:
                    evn = lp.target.id

                    def scan(body, guard):
                        for st_ in body:
                            if isinstance(st_, ast.If):
                                t_ = term(st_.test, True)
                                g_ = None
                                if t_[0] == 'eq' and f'{evn}.schema' in t_[1:] and any(str(x).startswith(("'", '"')) for x in t_[1:]):
                                    g_ = True
                                elif t_[0] == 'not' and isinstance(t_[1], tuple) and t_[1][0] == 'eq' and f'{evn}.schema' in t_[1][1:]:
                                    g_ = False
                                scan(st_.body, g_ if guard is None else guard)
                                scan(st_.orelse, (not g_) if (g_ is not None and guard is None) else guard)
                            elif isinstance(st_, ast.Assign) and len(st_.targets) == 1 and isinstance(st_.targets[0], ast.Subscript) \
                                    and isinstance(st_.targets[0].value, ast.Name) and st_.targets[0].value.id == dname and norm(st_.value) == evn:
                                found.append((st_.targets[0].slice, guard))
                            elif isinstance(st_, ast.Expr) and isinstance(st_.value, ast.Call) and isinstance(st_.value.func, ast.Attribute) and st_.value.func.attr == 'setdefault' \
                                    and isinstance(st_.value.func.value, ast.Name) and st_.value.func.value.id == dname and len(st_.value.args) == 2 \
                                    and norm(st_.value.args[1]) == evn:
                                found.append((st_.value.args[0], guard))
                    scan(lp.body, None)
                    if found:
                        index_keys = (c, evn, found)
                        break
                if index_keys:
                    break
        if raw_cmp or index_keys:
            if raw_cmp:
                c0, keys_ = raw_cmp[0]
                ev_ = next(x.id for k in keys_ for x in ast.walk(k) if isinstance(x, ast.Name) and x.id in enum_vars)
                pub = [spelling(k, ev_, True) for k in keys_]
                oth = [spelling(k, ev_, False) for k in keys_]
            else:
                c0, ev_, found = index_keys
                pub = [spelling(k, ev_, True) for k, g_ in found if g_ in (None, True)]
                oth = [spelling(k, ev_, False) for k, g_ in found if g_ in (None, False)]
            cons_k = 'ColumnBlueprint.build:type-spellings'
            if None in pub or None in oth:
                col.unk('C05-enum', cons_k, f'the type text is compared as written with `{norm(c0)[:80]}`; cannot read which spellings that accepts', node=c0, file=cb.file)
            elif 'NAME' in oth:
                col.bad('C05-enum', cons_k, f'the type text is compared as written (`{norm(c0)[:80]}`) and an enum OUTSIDE the default schema also answers to its bare name: a bare type '
                        f'name, which means the public enum (or no enum), links to a same-named enum of another schema', node=c0, file=cb.file)
            elif 'QUAL' not in pub:
                col.bad('C05-enum', cons_k, f'the type text is compared as written (`{norm(c0)[:80]}`) and an enum of the default schema answers only to its bare name: a type written '
                        f'`public.<name>` keeps its string type instead of the Enum object', node=c0, file=cb.file)
            elif 'NAME' not in pub:
                col.bad('C05-enum', cons_k, f'the type text is compared as written (`{norm(c0)[:80]}`) and an enum of the default schema does not answer to its bare name', node=c0, file=cb.file)
            elif 'QUAL' not in oth:
                col.bad('C05-enum', cons_k, f'the type text is compared as written (`{norm(c0)[:80]}`) and an enum of another schema does not answer to `schema.name`', node=c0, file=cb.file)
            else:
                col.ok('C05-enum', cons_k, 'public enums answer to `name` and `public.name`, others to `schema.name` only', node=c0, file=cb.file)
            return
        # the scan: a for loop over <...>.enums that contains the store
        loops = [n for n in ast.walk(cb.node) if isinstance(n, ast.For) and norm(n.iter).endswith('.enums') and any(s is x for s in stores for x in ast.walk(n))]
        if not loops:
            # search-then-use form: `found = e` under a test inside the scan, `self.type = found` afterwards
            for st in stores:
                if isinstance(st.value, ast.Name):
                    for lp in [n for n in ast.walk(cb.node) if isinstance(n, ast.For) and norm(n.iter).endswith('.enums')]:
                        picks = [a for a in ast.walk(lp) if isinstance(a, ast.Assign) and norm(a.targets[0]) == st.value.id and norm(a.value) == norm(lp.target)]
                        if picks:
                            ifs0 = [n for n in ast.walk(lp) if isinstance(n, ast.If) and any(p is x for p in picks for b in n.body for x in ast.walk(b))]
                            ev0 = norm(lp.target)
                            lits0 = [c for t in ifs0 for c in conjuncts(term(t.test, True))]
                            has_name = any(l[0] == 'eq' and f'{ev0}.name' in l[1:] for l in lits0)
                            has_schema = any(l[0] == 'eq' and f'{ev0}.schema' in l[1:] for l in lits0)
                            tuple_eq = any(l[0] == 'eq' and any(f'{ev0}.schema' in x and f'{ev0}.name' in x for x in l[1:]) for l in lits0)
                            if (has_name and has_schema) or tuple_eq:
                                col.ok('C05-enum', 'ColumnBlueprint.build:search-predicate', 'the search selects on name and schema together', node=lp, file=cb.file)
                            else:
                                col.bad('C05-enum', 'ColumnBlueprint.build:search-predicate',
                                        f'the enum is searched with the predicate `{norm(ifs0[0].test) if ifs0 else "<none>"}` and the first hit is kept: the search does not '
                                        f'require BOTH the name and the schema to match, so the first enum with a matching name wins even if an enum in the right schema exists',
                                        node=lp, file=cb.file)
                            return
        if not loops:
            # generator / next() based search
            gens = [n for n in ast.walk(cb.node) if isinstance(n, (ast.GeneratorExp, ast.ListComp)) and norm(n.generators[0].iter).endswith('.enums')]
            if gens:
                g = gens[0]
                ev = norm(g.generators[0].target)
                tests = g.generators[0].ifs
                lits = [c for t in tests for c in conjuncts(term(t, True))]
                has_name = any(l[0] == 'eq' and f'{ev}.name' in l[1:] for l in lits)
                has_schema = any(l[0] == 'eq' and f'{ev}.schema' in l[1:] for l in lits)
                tuple_eq = any(l[0] == 'eq' and any(f'{ev}.schema' in x and f'{ev}.name' in x for x in l[1:]) for l in lits)
                if (has_name and has_schema) or tuple_eq:
                    col.ok('C05-enum', 'ColumnBlueprint.build:search-predicate', 'the search selects on name and schema together', node=g, file=cb.file)
                else:
                    col.bad('C05-enum', 'ColumnBlueprint.build:search-predicate',
                            f'the enum is searched with `{norm(g)[:80]}`: the search predicate does not require BOTH the name and the schema to match, so the '
                            f'first enum with a matching name wins even if an enum in the right schema exists', node=g, file=cb.file)
                return
            raise Unrecognised('enum resolution is not a scan of database.enums', cb.node)
        loop = loops[0]
        ev = norm(loop.target)
        col.check('self.parser.database.enums' == norm(loop.iter), 'C05-enum', 'ColumnBlueprint.build:scans-this-database',
                  'the enums of the database being built are scanned', f'the scan is over `{norm(loop.iter)}`', node=loop, file=cb.file)
        for s in stores:
            tag = origin(s.value, cb.node)
            same = norm(s.value) == ev or (tag[0] == 'elem' and tag[1] == norm(loop.iter))
            if same:
                col.ok('C05-enum', 'ColumnBlueprint.build:stores-scanned-enum', 'the matching Enum object itself becomes the type', node=s, file=cb.file)
            elif tag[0] == 'fresh':
                col.bad('C05-enum', 'ColumnBlueprint.build:stores-scanned-enum', f'self.type is set to {tag[1]}, not to the scanned enum `{ev}`', node=s, file=cb.file)
            else:
                col.unk('C05-enum', 'ColumnBlueprint.build:stores-scanned-enum', f'cannot establish that `{norm(s.value)}` is the scanned enum `{ev}`', node=s, file=cb.file)
        # tests that dominate the store inside the loop
        ifs = [n for n in ast.walk(loop) if isinstance(n, ast.If) and any(s is x for s in stores for st in n.body for x in ast.walk(st))]
        if not ifs:
            col.bad('C05-enum', 'ColumnBlueprint.build:match-test', 'the type is replaced by an enum unconditionally', node=loop, file=cb.file)
            return
        lits = [c for t in ifs for c in conjuncts(term(t.test, True))]
        # variables derived from the type text
        def find_eq(attr: str) -> Optional[Tuple[str, str]]:
            for l in lits:
                if l[0] == 'eq':
                    a, b = l[1], l[2]
                    if a == f'{ev}.{attr}':
                        return (a, b)
                    if b == f'{ev}.{attr}':
                        return (b, a)
                    # tuple comparison (enum.schema, enum.name) == (schema, name)
                    for x, y in ((a, b), (b, a)):
                        if x.startswith('(') and f'{ev}.schema' in x and f'{ev}.name' in x:
                            xs = [p.strip() for p in x.strip('()').split(',')]
                            ys = [p.strip() for p in y.strip('()').split(',')]
                            if len(xs) == len(ys) == 2 and f'{ev}.{attr}' in xs:
                                return (f'{ev}.{attr}', ys[xs.index(f'{ev}.{attr}')])
            return None
        en, es = find_eq('name'), find_eq('schema')
        mentions_schema = any(f'{ev}.schema' in norm(t.test) for t in ifs)
        mentions_name = any(f'{ev}.name' in norm(t.test) for t in ifs)
        if en is None:
            (col.unk if mentions_name else col.bad)('C05-enum', 'ColumnBlueprint.build:match-name',
                                                    'the enum match does not require `enum.name == <name from the type>` as a plain conjunct'
                                                    + ('' if mentions_name else ': the enum name is ignored'), node=ifs[0], file=cb.file)
        else:
            col.ok('C05-enum', 'ColumnBlueprint.build:match-name', f'{en[0]} == {en[1]}', node=ifs[0], file=cb.file)
        if es is None:
            if mentions_schema:
                col.bad('C05-enum', 'ColumnBlueprint.build:match-schema',
                        f'the enum match `{norm(ifs[0].test)[:90]}` does not require `enum.schema == <schema from the type>` as a plain conjunct (the schema '
                        f'comparison is optional / inside a disjunction): a bare or qualified type can link to an enum of another schema', node=ifs[0], file=cb.file)
            else:
                col.bad('C05-enum', 'ColumnBlueprint.build:match-schema',
                        f'the enum match `{norm(ifs[0].test)[:90]}` never compares the enum schema: a type links to the first enum of that name in any schema',
                        node=ifs[0], file=cb.file)
            return
        col.ok('C05-enum', 'ColumnBlueprint.build:match-schema', f'{es[0]} == {es[1]}', node=ifs[0], file=cb.file)
        # provenance of the schema/name values: from the type text, with the default-schema constant for a bare type
        sv, nv = es[1], (en[1] if en else None)
        assigns = [n for n in ast.walk(cb.node) if isinstance(n, ast.Assign)]
        schema_srcs: List[str] = []
        name_srcs: List[str] = []
        for a in assigns:
            t = a.targets[0]
            if isinstance(t, ast.Tuple) and [norm(x) for x in t.elts] == [sv, nv]:
                if isinstance(a.value, ast.Tuple) and len(a.value.elts) == 2:
                    schema_srcs.append(norm(a.value.elts[0]))
                    name_srcs.append(norm(a.value.elts[1]))
                else:
                    schema_srcs.append(norm(a.value) + '[0]')
                    name_srcs.append(norm(a.value) + '[1]')
            elif norm(t) == sv:
                schema_srcs.append(norm(a.value))
            elif nv and norm(t) == nv:
                name_srcs.append(norm(a.value))
        # follow local names to what they were computed from (single assignments and tuple unpackings, a few levels)
        def resolve_src(txt: str, depth: int = 0) -> str:
            if depth > 4:
                return txt
            try:
                e = ast.parse(txt, mode='eval').body
            except SyntaxError:
                return txt
            idx_ = None
            if isinstance(e, ast.Subscript) and isinstance(e.slice, ast.Constant) and isinstance(e.value, ast.Name):
                idx_, e = e.slice.value, e.value
            if not isinstance(e, ast.Name):
                return txt
            defs = []
            for a in assigns:
                t = a.targets[0]
                if isinstance(t, ast.Name) and t.id == e.id:
                    defs.append(norm(a.value) if idx_ is None else f'{norm(a.value)}[{idx_}]')
                elif isinstance(t, ast.Tuple):
                    for k_, x in enumerate(t.elts):
                        if isinstance(x, ast.Name) and x.id == e.id:
                            if isinstance(a.value, ast.Tuple) and len(a.value.elts) == len(t.elts):
                                defs.append(norm(a.value.elts[k_]))
                            else:
                                defs.append(f'{norm(a.value)}[{k_}]')
            if len(defs) != 1:
                return txt
            return resolve_src(defs[0], depth + 1)

        def classify(sx: str) -> str:
            r = resolve_src(sx)
            if r.startswith(("'", '"')) and len(r) > 2:
                return 'const'
            if 'self.type' in r:
                return 'type-split' if 'split' in r or 'partition' in r else 'type'
            try:
                e = ast.parse(r, mode='eval').body
            except SyntaxError:
                return 'unknown'
            if isinstance(e, ast.Name):
                return 'param' if e.id in params_ else 'unknown'
            if isinstance(e, ast.Attribute) and norm(e).startswith('self.'):
                return 'foreign'
            return 'unknown'
        sk = [classify(x) for x in schema_srcs]
        nk = [classify(x) for x in name_srcs]
        shown_s = [resolve_src(x) for x in schema_srcs]
        shown_n = [resolve_src(x) for x in name_srcs]
        cons_s, cons_n = 'ColumnBlueprint.build:schema-provenance', 'ColumnBlueprint.build:name-provenance'
        if sk and all(k in ('type-split', 'const') for k in sk) and 'const' in sk and 'type-split' in sk:
            col.ok('C05-enum', cons_s, f'the schema compared is the one written in the type, or the default-schema constant for a bare type ({shown_s})', node=ifs[0], file=cb.file)
        elif any(k in ('foreign', 'param', 'type') for k in sk) or (sk and all(k in ('type-split', 'const') for k in sk)):
            col.bad('C05-enum', cons_s, f'the schema compared with the enum comes from {shown_s}: expected "part before the dot of the type" or the default-schema constant',
                    node=ifs[0], file=cb.file)
        else:
            col.unk('C05-enum', cons_s, f'cannot follow where the schema compared with the enum comes from ({shown_s or "no assignment found"})', node=ifs[0], file=cb.file)
        if nk and all(k in ('type-split', 'type') for k in nk):
            col.ok('C05-enum', cons_n, f'the name compared comes from the type text ({shown_n})', node=ifs[0], file=cb.file)
        elif any(k in ('foreign', 'param', 'const') for k in nk):
            col.bad('C05-enum', cons_n, f'the name compared with the enum comes from {shown_n}', node=ifs[0], file=cb.file)
        else:
            col.unk('C05-enum', cons_n, f'cannot follow where the name compared with the enum comes from ({shown_n or "no assignment found"})', node=ifs[0], file=cb.file)
    guarded(col, 'C05-enum', 'enum-resolution', enum_match)

    # ---------------------------------------------------------------- C05-wiring
    def wiring():
        # parse_blueprint specialised per blueprint class (rules/wiring.py): which objects get `.parser = <this parser>`
        from .wiring import kind_facts
        pb = idx.func(PARSER, 'PyDBMLParser.parse_blueprint')
        # blueprint classes that read self.parser in build / helpers
        needs: Set[str] = set()
        base = idx.cls(BP, 'Blueprint')
        for ci in idx.subclasses(base.id):
            for m in ci.methods.values():
                if any(isinstance(n, ast.Attribute) and norm(n) == 'self.parser' and isinstance(n.ctx, ast.Load) for n in ast.walk(m.node)):
                    needs.add(ci.name)
        col.floor('C05-wiring', 'blueprints that need the parser', len(needs), 3)
        facts = {ci.name: kind_facts(ctx, ci.name) for ci in idx.subclasses(base.id)}
        top = sorted(k for k, f in facts.items() if any(what == 'self' for _, _, what, _, _ in f.stores))
        col.floor('C05-wiring', 'blueprint classes collected by parse_blueprint', len(top), 6)

        def judge(cons: str, kinds: List[str], wanted: Tuple[str, ...], okmsg: str, badmsg: str):
            """Every kind has an unconditional `.parser = self` on one of the wanted objects."""
            worst = None
            for k in kinds:
                f = facts[k]
                hits = [(n_, c_) for w in wanted for n_, c_ in f.parser_sets.get(w, [])]
                if any(not c_ for _, c_ in hits):
                    continue
                if hits:
                    worst = worst or ('unk', f'for {k} the parser is set only under {hits[0][1]}')
                elif f.undecided or f.opaque or any(d.startswith('?') for d in f.parser_sets):
                    worst = worst or ('unk', f'for {k} the specialised parse_blueprint still has parts that could not be followed '
                                      f'({"an undecided isinstance test" if f.undecided else (f.opaque or [d for d in f.parser_sets if d.startswith("?")])[0]})')
                else:
                    worst = ('bad', f'for {k}: after resolving the dispatch and inlining every helper, nothing assigns `.parser` to {" / ".join(wanted)} '
                             f'(objects that do get it: {sorted(f.parser_sets) or "none"})')
            if worst is None:
                col.ok('C05-wiring', cons, okmsg, node=pb.node, file=pb.file)
            elif worst[0] == 'bad':
                col.bad('C05-wiring', cons, f'{badmsg} - {worst[1]}', node=pb.node, file=pb.file)
            else:
                col.unk('C05-wiring', cons, f'{okmsg}: not established - {worst[1]}', node=pb.node, file=pb.file)
        judge('parse_blueprint:blueprint.parser', [k for k in top if k in needs], ('self',), 'every collected blueprint that needs it gets .parser = self',
              'parse_blueprint does not set .parser = self on a collected blueprint: references and table groups cannot resolve their tables (RuntimeError / unresolved)')
        INLINE = ('elem(self.get_reference_blueprints())', 'elem(elem(self.columns).ref_blueprints)')
        if 'TableBlueprint' in facts:
            if 'ColumnBlueprint' in needs:
                judge('parse_blueprint:columns.parser', ['TableBlueprint'], ('elem(self.columns)',), 'every column blueprint of a table gets .parser = self',
                      'parse_blueprint does not set .parser on the column blueprints: ColumnBlueprint.build silently skips enum resolution (`if self.parser:`), so '
                      'enum-typed columns keep a string type')
            if 'ReferenceBlueprint' in needs:
                judge('parse_blueprint:inline-refs.parser', ['TableBlueprint'], INLINE, 'every inline reference blueprint gets .parser = self',
                      'parse_blueprint does not set .parser on the inline reference blueprints')
            f = facts['TableBlueprint']
            queued = [s_ for s_ in f.stores if s_[0] == 'self.refs' and s_[2] in INLINE]
            if queued and any(not s_[4] for s_ in queued):
                col.ok('C05-wiring', 'parse_blueprint:inline-refs-collected', 'inline references are queued with the standalone ones', node=pb.node, file=pb.file)
            elif queued or f.undecided or f.opaque:
                col.unk('C05-wiring', 'parse_blueprint:inline-refs-collected', 'cannot establish that the inline reference blueprints are always added to self.refs',
                        node=pb.node, file=pb.file)
            else:
                col.bad('C05-wiring', 'parse_blueprint:inline-refs-collected', f'parse_blueprint does not add the inline reference blueprints to self.refs (stores for a table: '
                        f'{[(a, c) for a, _, c, _, _ in f.stores]})', node=pb.node, file=pb.file)
    guarded(col, 'C05-wiring', 'parser-wiring', wiring)

    # ---------------------------------------------------------------- C05-owner (ownership queries)
    def ownership():
        from .common import select_filter
        tg = idx.func('pydbml._classes.table', 'Table.get_refs')
        st, f = select_filter(tg.node, 'self.database.refs', [('eq', *sorted(('VAR.table1', 'self')))])
        if st == 'none':
            st, f = select_filter(tg.node, 'self.database.refs', [('is', *sorted(('VAR.table1', 'self')))])
        (col.ok if st == 'ok' else col.bad if st == 'bad' else col.unk)(
            'C05-owner', 'Table.get_refs:filter',
            'exactly the references whose left side is this table' if st == 'ok' else
            (f'Table.get_refs selects from self.database.refs with conditions {f["conds"]} (element `{f["elt"]}`); expected every ref with ref.table1 == self' if st == 'bad'
             else 'Table.get_refs does not iterate self.database.refs in a recognised form'), node=tg.node, file=tg.file)
        cg = idx.func('pydbml._classes.column', 'Column.get_refs')
        st, f = select_filter(cg.node, 'self.table.get_refs()', [('in', 'self', 'VAR.col1')])
        (col.ok if st == 'ok' else col.bad if st == 'bad' else col.unk)(
            'C05-owner', 'Column.get_refs:filter',
            'exactly the references that start at this column' if st == 'ok' else
            (f'Column.get_refs selects from self.table.get_refs() with conditions {f["conds"]}; expected every ref with self in ref.col1' if st == 'bad'
             else 'Column.get_refs does not iterate self.table.get_refs() in a recognised form'), node=cg.node, file=cg.file)
        # key-holder dispatch
        key_holder_dispatch(ctx, col, 'C05-owner')
    guarded(col, 'C05-owner', 'ownership-queries', ownership)


def key_holder_dispatch(ctx, col: Collector, rule: str):
    """get_references_for_sql assigns every non-many-to-many reference to exactly one table, the one
    whose columns carry the FOREIGN KEY in render_reference, comparing table objects."""
    idx = ctx.idx
    from ..inline import inlined_info
    fi = inlined_info(idx, idx.func('pydbml.renderer.sql.default.table', 'get_references_for_sql'), depth=2)
    # a local that only names `model.database` (bound once) is read as that path
    import copy as _copy
    from ..pyindex import FuncInfo as _FI
    from ..normalise import _PathSubst, _attr_path
    node_ = _copy.deepcopy(fi.node)
    for i_, st_ in enumerate(list(node_.body)):
        if isinstance(st_, ast.Assign) and len(st_.targets) == 1 and isinstance(st_.targets[0], ast.Name) and _attr_path(st_.value) \
                and sum(1 for x in ast.walk(node_) if isinstance(x, ast.Name) and x.id == st_.targets[0].id and isinstance(x.ctx, ast.Store)) == 1:
            k_ = node_.body.index(st_)
            sub_ = _PathSubst(st_.targets[0].id, st_.value)
            node_.body[k_ + 1:] = [sub_.visit(b_) for b_ in node_.body[k_ + 1:]]
            del node_.body[k_]
    ast.fix_missing_locations(node_)
    fi = _FI(fi.module, fi.qualname, node_, fi.cls, fi.kind)
    p = [a.arg for a in fi.node.args.args][0]
    consts = const_names(ctx)
    holders = holder_sides(ctx)
    # clauses under which a reference of model.database.refs is selected: (test expression, loop variable)
    clauses: List[Tuple[ast.AST, str]] = []
    for n in ast.walk(fi.node):
        if isinstance(n, ast.For) and norm(n.iter) == f'{p}.database.refs':
            rv = norm(n.target)
            for x in ast.walk(n):
                if isinstance(x, ast.If) and any(isinstance(c, ast.Call) and isinstance(c.func, ast.Attribute) and c.func.attr == 'append' and c.args and norm(c.args[0]) == rv
                                                 for b in x.body for c in ast.walk(b)):
                    clauses.append((x.test, rv))
        if isinstance(n, (ast.ListComp, ast.GeneratorExp)) and len(n.generators) == 1 and norm(n.generators[0].iter) == f'{p}.database.refs' \
                and norm(n.elt) == norm(n.generators[0].target):
            rv = norm(n.generators[0].target)
            for cnd in n.generators[0].ifs:
                parts = cnd.values if isinstance(cnd, ast.BoolOp) and isinstance(cnd.op, ast.Or) else [cnd]
                for part in parts:
                    clauses.append((part, rv))
    seen: Dict[str, List[str]] = {}
    # loop forms (`for ref in refs: ... out.append(ref)`, also grouped: `G[KEY].append(ref)` / `G.setdefault(KEY, []).append(ref)` ... `return G.get(Q)`): the loop body is
    # evaluated once per kind (sa/peval.py: tests on the kind decided, locals followed) and what is left of the conditions of the append is read
    floops = [n for n in ast.walk(fi.node) if isinstance(n, ast.For) and norm(n.iter) == f'{p}.database.refs' and isinstance(n.target, ast.Name)]
    if floops:
        from ..peval import run as _prun
        loop_ = floops[0]
        rv = loop_.target.id
        # what the function returns: a local list, or a lookup in a local grouping
        ret_q = {}
        for r_ in walk_no_nested(fi.node):
            if isinstance(r_, ast.Return) and r_.value is not None:
                v_ = r_.value
                if isinstance(v_, ast.Call) and isinstance(v_.func, ast.Attribute) and v_.func.attr == 'get' and isinstance(v_.func.value, ast.Name) and v_.args:
                    ret_q[v_.func.value.id] = v_.args[0]
                elif isinstance(v_, ast.Subscript) and isinstance(v_.value, ast.Name):
                    ret_q[v_.value.id] = v_.slice
        for k in sorted(consts):
            tr = _prun(fi.node, f'{rv}.type', k, inside=loop_.body)
            verdicts = []           # (how, side, shown)
            for c in tr.calls:
                if not (isinstance(c.func, ast.Attribute) and c.func.attr == 'append' and c.args and norm(c.args[0]) == rv):
                    continue
                recv = c.func.value
                conds = next((cs for r0, v0, cs in tr.appended if r0 == norm(recv) and norm(v0) == rv), [])
                key = None
                g_ = None
                if isinstance(recv, ast.Subscript) and isinstance(recv.value, ast.Name):
                    g_, key = recv.value.id, recv.slice
                elif isinstance(recv, ast.Call) and isinstance(recv.func, ast.Attribute) and recv.func.attr == 'setdefault' and isinstance(recv.func.value, ast.Name) and recv.args:
                    g_, key = recv.func.value.id, recv.args[0]
                if key is not None:
                    q_ = ret_q.get(g_)
                    kt = norm(key)
                    side = next((sd for sd in ('1', '2') if kt.startswith(f'{rv}.table{sd}')), None)
                    if q_ is None:
                        verdicts.append(('?', side, f'grouped by `{kt}`, lookup not found'))
                    elif side and kt == f'{rv}.table{side}' and norm(q_) == p:
                        verdicts.append(('object', side, f'grouped by `{kt}`'))
                    elif side and kt.startswith(f'{rv}.table{side}.') and kt.split('.')[-1] in ('name', 'full_name') and norm(q_) == f'{p}.{kt.split(".")[-1]}':
                        verdicts.append(('name' if kt.endswith('.name') else 'object-like', side, f'grouped by `{kt}` and looked up by `{norm(q_)}`'))
                    else:
                        verdicts.append(('?', side, f'grouped by `{kt}` and looked up by `{norm(q_)}`'))
                    continue
                # plain list: the residual conditions decide
                lits_ = [l for cnd in conds for l in conjuncts(term(cnd, True))]
                found = None
                for l in lits_:
                    if l[0] in ('eq', 'is') and len(l) == 3:
                        for sd in ('1', '2'):
                            if {l[1], l[2]} == {f'{rv}.table{sd}', p}:
                                found = ('object', sd, f'`{rv}.table{sd}` compared with `{p}`')
                            elif {l[1], l[2]} == {f'{rv}.table{sd}.name', f'{p}.name'}:
                                found = found or ('name', sd, f'`{rv}.table{sd}.name == {p}.name`')
                if found is None:
                    found = ('all', None, 'no test on the table at all') if not [l for l in lits_ if l[0] != 'not' or True] else ('?', None, f'conditions {[norm(c_) for c_ in conds][:2]}')
                verdicts.append(found)
            if not verdicts:
                continue
            how, side, shown = verdicts[0]
            seen.setdefault(k, []).append(side or '?')
            cons_ = f'get_references_for_sql:{k}:compares-tables'
            if how == 'object':
                col.ok(rule, cons_, f'`{consts.get(k, k)}`: the rendered table is compared with ref.table{side} as an object ({shown})', node=fi.node, file=fi.file)
            elif how == 'name':
                col.bad(rule, cons_, f'for `{consts.get(k, k)}` references get_references_for_sql decides ownership by NAME ({shown}) instead of comparing the table objects: tables '
                        f'that share a name (in different schemas) both claim the reference', node=fi.node, file=fi.file)
            elif how == 'all':
                col.bad(rule, cons_, f'for `{consts.get(k, k)}` references every table lists the reference ({shown})', node=fi.node, file=fi.file)
            else:
                col.unk(rule, cons_, f'for `{consts.get(k, k)}` references the ownership test could not be read ({shown})', node=fi.node, file=fi.file)
        clauses = []
    elif not clauses:
        raise Unrecognised('get_references_for_sql does not select from model.database.refs in a recognised form', fi.node)
    # the selection is the disjunction of the clauses; evaluated once per kind constant with every test on `<ref>.type` decided by that kind (sa/peval.py),
    # what is left over must be "ref.table<N> is the rendered table" (or nothing, for a kind the table never lists)
    from ..peval import residual
    rvs = {rv for _, rv in clauses}
    if clauses and len(rvs) != 1:
        raise Unrecognised('get_references_for_sql selects with several loop variables', fi.node)
    rv = next(iter(rvs)) if rvs else ''
    whole = (clauses[0][0] if len(clauses) == 1 else ast.BoolOp(op=ast.Or(), values=[t for t, _ in clauses])) if clauses else None
    for k in (sorted(consts) if clauses else []):
        r = residual(whole, f'{rv}.type', k)
        if isinstance(r, ast.Constant) and r.value is False:
            continue
        side = None
        how = ''
        t = term(r, True)
        for sd in ('1', '2'):
            if t in (('eq', *sorted((f'{rv}.table{sd}', p))), ('is', *sorted((f'{rv}.table{sd}', p)))):
                side, how = sd, 'object'
        if side is None:
            for sd in ('1', '2'):
                if f'{rv}.table{sd}' in norm(r) and side is None:
                    side, how = sd, f'`{norm(r)[:70]}`'
        if side is None and isinstance(r, ast.Constant) and r.value is True:
            how = 'no test at all (every table lists the reference)'
        if side is None and f'{rv}.type' in norm(r):
            raise Unrecognised(f'selection clause `{norm(whole)[:60]}` tests the reference kind in a form that is not decided by the kind constant', whole)
        seen.setdefault(k, []).append(side or '?')
        col.check(how == 'object', rule, f'get_references_for_sql:{k}:compares-tables',
                  f'`{consts.get(k, k)}`: the rendered table is compared with ref.table{side} as an object',
                  f'for `{consts.get(k, k)}` references get_references_for_sql decides ownership with {how or "a test that is not `ref.table<N> == <table>`"} instead of comparing the '
                  f'table objects: tables that share a name (in different schemas) both claim the reference', node=fi.node, file=fi.file)
    for k, hside in sorted(holders.items()):
        got = seen.get(k, [])
        if '?' in got:
            col.unk(rule, f'get_references_for_sql:{k}:key-holder', f'`{consts.get(k, k)}`: cannot read which side of the reference get_references_for_sql compares with the table',
                    node=fi.node, file=fi.file)
            continue
        col.check(got == [hside], rule, f'get_references_for_sql:{k}:key-holder',
                  f'`{consts.get(k, k)}` references are owned by table{hside} only (same side as the FOREIGN KEY dispatch)',
                  f'`{consts.get(k, k)}` references are assigned to table sides {got or "none"} by get_references_for_sql while render_reference puts the '
                  f'foreign key on side {hside}: the reference is rendered in no table, in the wrong one, or twice', node=fi.node, file=fi.file)
    extra = set(seen) - set(holders)
    col.check(not extra, rule, 'get_references_for_sql:no-extra-kinds', 'no other kind is ever assigned to a table',
              f'kinds {sorted(extra)} are assigned to a table although they have no FOREIGN KEY dispatch (many-to-many is rendered as a join table)',
              node=fi.node, file=fi.file)
