"""Analyses on the grammar IR shared by the grammar-based rules (C01, C07, C13, C14, C15):
nullability, FIRST sets, match-length sets, multiplicities of named components, literal
vocabularies, blank/comment skippers, bracket lists, free-text enclosure."""
from __future__ import annotations

from typing import Dict, FrozenSet, Iterable, List, Optional, Set, Tuple

from .grammar import G, flatten_and, flatten_alt, value_action, walk, names_out

ZERO_WIDTH = ('wordstart', 'wordend', 'errorstop', 'empty', 'lookahead', 'notany', 'linestart', 'stringstart')
CLOSED_TOKENS = ('lit', 'keyword', 'oneof', 'lineend', 'stringend', 'white')
WRAPPERS = ('suppress', 'group', 'combine', 'forward', 'origtext')


def nullable(g: G, _st: Optional[Set[int]] = None) -> bool:
    _st = _st or set()
    if g.uid in _st:
        return False
    _st = _st | {g.uid}
    k = g.kind
    if k == 'lit' or k == 'keyword':
        return g.a['text'] == ''
    if k in ZERO_WIDTH or k in ('skipto', 'stringend'):
        return True
    if k == 'lineend':
        return False
    if k in ('word', 'quoted', 'white', 'oneof', 'nomatch'):
        return False
    if k == 'charsnotin':
        return (g.a.get('min') or 0) == 0
    if k == 'regex':
        return True
    if k == 'repeat':
        return g.a['min'] == 0 or nullable(g.kids[0], _st)
    if k == 'and':
        return all(nullable(x, _st) for x in g.kids)
    if k in ('first', 'or'):
        return any(nullable(x, _st) for x in g.kids)
    if k == 'each':
        return all(nullable(x, _st) for x in g.kids)
    if k in WRAPPERS:
        return (not g.kids) or nullable(g.kids[0], _st)
    if k == 'pendingskip':
        return nullable(g.kids[0], _st)
    return True


def first_tokens(g: G, _st: Optional[Set[int]] = None) -> List[G]:
    """Leaf tokens that can start a match of g (zero-width assertions are skipped)."""
    _st = _st or set()
    if g.uid in _st:
        return []
    _st = _st | {g.uid}
    k = g.kind
    if k in ZERO_WIDTH:
        return []
    if k == 'and':
        out: List[G] = []
        for x in g.kids:
            out.extend(first_tokens(x, _st))
            if not nullable(x):
                break
        return out
    if k in ('first', 'or', 'each'):
        out = []
        for x in g.kids:
            out.extend(first_tokens(x, _st))
        return out
    if k == 'repeat' or k in WRAPPERS or k == 'pendingskip':
        return first_tokens(g.kids[0], _st) if g.kids else []
    return [g]


def is_open_token(t: G) -> bool:
    """A token class that accepts arbitrary user text (identifier, string, number, free text)."""
    if t.kind == 'regex' and comment_forms(t) is not None:
        return False            # a comment token written as a regular expression starts with its marker
    if t.kind == 'regex' and regex_skipper(t.a.get('pattern', ''), t.a.get('flags', 0) or 0) is not None:
        return False            # a skipper written as a regular expression matches blanks, line breaks and comments only
    return t.kind in ('word', 'quoted', 'charsnotin', 'skipto', 'regex')


def lengths(g: G, cap: int = 64, _st: Optional[Set[int]] = None) -> Optional[FrozenSet[int]]:
    """Set of possible numbers of characters matched (no inner whitespace assumed); None when unbounded
    or unknown."""
    _st = _st or set()
    if g.uid in _st:
        return None
    _st = _st | {g.uid}
    k = g.kind
    if k in ('lit', 'keyword'):
        return frozenset({len(g.a['text'])})
    if k in ZERO_WIDTH:
        return frozenset({0})
    if k == 'oneof':
        return frozenset(len(x) for x in g.a['alts'])
    if k == 'word' or k == 'charsnotin':
        lo, hi = g.a.get('min') or 0, g.a.get('max')
        if hi is None or hi - lo > cap:
            return None
        return frozenset(range(lo, hi + 1))
    if k in WRAPPERS:
        return lengths(g.kids[0], cap, _st) if g.kids else frozenset({0})
    if k in ('first', 'or'):
        out: Set[int] = set()
        for x in g.kids:
            l = lengths(x, cap, _st)
            if l is None:
                return None
            out |= l
        return frozenset(out)
    if k == 'and':
        acc: Set[int] = {0}
        for x in g.kids:
            l = lengths(x, cap, _st)
            if l is None:
                return None
            acc = {a + b for a in acc for b in l}
            if len(acc) > 4 * cap:
                return None
        return frozenset(acc)
    if k == 'repeat':
        lo, hi = g.a['min'], g.a['max']
        if hi is None or hi > cap:
            return None
        l = lengths(g.kids[0], cap, _st)
        if l is None:
            return None
        acc = set()
        for n in range(lo, hi + 1):
            cur = {0}
            for _ in range(n):
                cur = {a + b for a in cur for b in l}
            acc |= cur
        return frozenset(acc)
    return None


def charset(g: G, _st: Optional[Set[int]] = None) -> Optional[FrozenSet[str]]:
    """Characters a bounded token composition can contain; None if unknown."""
    _st = _st or set()
    if g.uid in _st:
        return None
    _st = _st | {g.uid}
    k = g.kind
    if k in ('lit', 'keyword'):
        t = g.a['text']
        return frozenset(t.lower() + t.upper()) if g.a.get('caseless') else frozenset(t)
    if k == 'word':
        return frozenset(g.a['init'] | g.a['body'])
    if k in ZERO_WIDTH:
        return frozenset()
    if k == 'oneof':
        return frozenset(''.join(g.a['alts']))
    if k == 'regex':
        return regex_charset(g.a['pattern'], g.a.get('flags', 0))
    if k in ('and', 'first', 'or', 'repeat') or k in WRAPPERS:
        out: Set[str] = set()
        for x in g.kids:
            c = charset(x, _st)
            if c is None:
                return None
            out |= c
        return frozenset(out)
    return None


def regex_charset(pattern: str, flags: int = 0) -> Optional[FrozenSet[str]]:
    """Characters a match of the pattern can contain (None when a class is negated / a wildcard or category is used)."""
    sp, sc = _sre()
    try:
        tree = sp.parse(pattern, flags)
    except Exception:
        return None
    out: Set[str] = set()

    def walk_(seq) -> bool:
        for op, av in seq:
            if op is sc.LITERAL:
                out.add(chr(av))
            elif op is sc.IN:
                for o2, v2 in av:
                    if o2 is sc.LITERAL:
                        out.add(chr(v2))
                    elif o2 is sc.RANGE:
                        if v2[1] - v2[0] > 512:
                            return False
                        out.update(chr(c) for c in range(v2[0], v2[1] + 1))
                    else:
                        return False          # negation, category
            elif op is sc.SUBPATTERN:
                if not walk_(av[-1]):
                    return False
            elif op is sc.BRANCH:
                for br in av[1]:
                    if not walk_(br):
                        return False
            elif op in (sc.MAX_REPEAT, sc.MIN_REPEAT):
                if not walk_(av[2]):
                    return False
            elif op is sc.AT:
                continue
            else:
                return False
        return True
    if not walk_(list(tree)):
        return None
    if flags & 2:        # re.IGNORECASE
        out |= {c.lower() for c in out} | {c.upper() for c in out}
    return frozenset(out)


def inner_ws_allowed(g: G, _st: Optional[Set[int]] = None) -> bool:
    """Can whitespace be skipped between the pieces of a sequence (i.e. some non-first piece skips
    leading whitespace)?"""
    _st = _st or set()
    if g.uid in _st:
        return False
    _st = _st | {g.uid}
    if g.kind == 'combine':
        return not g.a.get('adjacent', True)
    if g.kind == 'and':
        kids = [x for x in g.kids if x.kind not in ZERO_WIDTH]
        for i, x in enumerate(kids):
            if i > 0 and leading_skip(x):
                return True
            if inner_ws_allowed(x, _st):
                return True
        return False
    if g.kind in ('first', 'or', 'repeat') or g.kind in WRAPPERS:
        if g.kind == 'repeat' and (g.a['max'] is None or g.a['max'] > 1) and any(leading_skip(x) for x in g.kids):
            return True
        return any(inner_ws_allowed(x, _st) for x in g.kids)
    return False


def leading_skip(g: G, _st: Optional[Set[int]] = None) -> bool:
    _st = _st or set()
    if g.uid in _st:
        return False
    _st = _st | {g.uid}
    if g.kind in ('and',):
        return bool(g.kids) and g.skip_ws and leading_skip(g.kids[0], _st)
    if g.kind in ('first', 'or'):
        return g.skip_ws and any(leading_skip(x, _st) for x in g.kids)
    if g.kind == 'repeat' or g.kind in WRAPPERS:
        return g.skip_ws and (not g.kids or leading_skip(g.kids[0], _st))
    return g.skip_ws


# ----------------------------------------------------------------------------------------------
# multiplicity of named components
# ----------------------------------------------------------------------------------------------

INF = 10 ** 6


def mult(g: G, name: str, top: bool = True, _st: Optional[Set[int]] = None) -> Tuple[int, int]:
    """(min, max) number of times a component carrying results name `name` is matched inside one
    match of g, as visible to g's own parse action (max == INF: unbounded)."""
    _st = _st or set()
    if g.uid in _st:
        return (0, 0)
    _st = _st | {g.uid}
    if not top:
        if g.kind in ('suppress', 'lookahead', 'notany'):
            return (0, 0)
        if g.name == name:
            return (1, 1)
        if g.kind == 'group' or value_action(g) is not None:
            return (0, 0)
    if g.kind in ('suppress', 'group', 'origtext', 'lookahead', 'notany', 'skipto'):
        return (0, 0)
    if g.kind in ('and', 'each'):
        lo = hi = 0
        for x in g.kids:
            a, b = mult(x, name, False, _st)
            lo, hi = lo + a, min(INF, hi + b)
        return (lo, hi)
    if g.kind in ('first', 'or'):
        rs = [mult(x, name, False, _st) for x in g.kids]
        return (min(r[0] for r in rs), max(r[1] for r in rs)) if rs else (0, 0)
    if g.kind == 'repeat':
        a, b = mult(g.kids[0], name, False, _st)
        lo, hi = g.a['min'], g.a['max']
        return (lo * a, INF if (hi is None and b > 0) else min(INF, (hi or 0) * b))
    if g.kids:
        return mult(g.kids[0], name, False, _st)
    return (0, 0)


# ----------------------------------------------------------------------------------------------
# vocabularies, skippers, bracket lists
# ----------------------------------------------------------------------------------------------

def literal_texts(g: G, _st: Optional[Set[int]] = None) -> List[G]:
    """Literal/keyword/oneof tokens below g, stopping at value-action nodes other than g."""
    out: List[G] = []
    for n in walk(g):
        if n.kind in ('lit', 'keyword', 'oneof'):
            out.append(n)
    return out


def vocab_of(g: G) -> Optional[List[Tuple[str, bool, G]]]:
    """If g is (after unwrapping) a pure alternative of literals: [(text, caseless, node)], else None."""
    while g.kind in WRAPPERS and g.kind != 'suppress' and g.kids and not (g.kind == 'combine' and g.kids[0].kind == 'and'):
        g = g.kids[0]
    if g.kind in ('lit', 'keyword'):
        return [(g.a['text'], bool(g.a.get('caseless')), g)]
    if g.kind == 'oneof':
        return [(t, bool(g.a.get('caseless')), g) for t in g.a['alts']]
    if g.kind == 'combine' and g.kids and g.kids[0].kind == 'and':
        # a keyword phrase assembled from words: Combine(And([word, word]), join_string=' ')
        parts = []
        for k in flatten_and(g.kids[0]):
            v = vocab_of(k)
            if v is None or len(v) != 1:
                return None
            parts.append(v[0])
        if not parts:
            return None
        return [((g.a.get('join') or '').join(t for t, _, _ in parts), all(cl for _, cl, _ in parts), g)]
    if g.kind == 'regex':
        # a pattern that is a finite union of literal strings is a vocabulary too (its value is the text AS WRITTEN, see returns_canonical)
        import re as _re
        from .strctx import regex_literal_alternatives
        try:
            alts = regex_literal_alternatives(g.a['pattern'], blanks=True)
        except Exception:
            return None
        if not alts or any(a is None for a in alts):
            return None
        return [(a, bool(g.a.get('flags', 0) & _re.IGNORECASE), g) for a in alts]
    if g.kind in ('first', 'or'):
        out: List[Tuple[str, bool, G]] = []
        for k in g.kids:
            v = vocab_of(k)
            if v is None:
                return None
            out.extend(v)
        return out
    return None


def returns_canonical(node: G) -> bool:
    """Does a caseless vocabulary token hand its action the spelling written in the grammar (CaselessLiteral, caseless one_of) rather than the
    spelling found in the document (a case-insensitive Regex)?"""
    return node.kind != 'regex'


def is_comment_form(g: G) -> Optional[str]:
    """'line' for  //  + skip-to-line-end, 'block' for /* ... */, else None (g is a sequence)."""
    seq = [x for x in flatten_and(g)]
    if not seq:
        return None

    def lit_text(x: G) -> Optional[str]:
        while x.kind == 'suppress' and x.kids:
            x = x.kids[0]
        return x.a['text'] if x.kind == 'lit' else None
    opener = lit_text(seq[0])
    if opener == '//' and len(seq) == 2 and seq[1].kind == 'skipto' and seq[1].kids and seq[1].kids[0].kind == 'lineend':
        return 'line'
    if opener == '/*' and len(seq) == 3 and seq[1].kind == 'skipto' and lit_text(seq[2]) == '*/' \
            and seq[1].kids and lit_text(seq[1].kids[0]) == '*/':
        return 'block'
    return None


def is_comment(g: G) -> bool:
    """g is the comment token: alternatives that are all comment forms."""
    while g.kind in ('suppress',) and g.kids:
        g = g.kids[0]
    return comment_forms(g) is not None


def regex_skipper(pattern: str, flags: int = 0) -> Optional[Dict[str, bool]]:
    """If every string the pattern matches consists of blanks, line breaks and comments only: what it can consume
    {'blank', 'cr', 'nl', 'line-comment', 'block-comment', 'unbounded' (a repetition without upper bound), 'cr-in-loop' (inside that repetition a `\r` can be passed)};
    None when the pattern can match anything else."""
    sp, sc = _sre()
    try:
        tree = list(sp.parse(pattern, flags))
    except Exception:
        return None
    info = {'blank': False, 'cr': False, 'nl': False, 'line-comment': False, 'block-comment': False, 'unbounded': False, 'cr-in-loop': False}

    def ws_chars(item) -> Optional[Set[str]]:
        op, av = item
        if op is sc.LITERAL:
            return {chr(av)} if chr(av) in ' \t\r\n\f\v' else None
        if op is sc.IN:
            out: Set[str] = set()
            for o, v in av:
                if o is sc.LITERAL and chr(v) in ' \t\r\n\f\v':
                    out.add(chr(v))
                elif o is sc.CATEGORY and v is sc.CATEGORY_SPACE:
                    out |= set(' \t\r\n\f\v')
                else:
                    return None
            return out
        return None

    def seq(items, in_loop: bool) -> bool:
        i = 0
        while i < len(items):
            op, av = items[i]
            w = ws_chars(items[i])
            if w is not None:
                info['blank'] |= bool(w & set(' \t'))
                info['cr'] |= '\r' in w
                info['nl'] |= '\n' in w
                if in_loop and '\r' in w:
                    info['cr-in-loop'] = True
                i += 1
                continue
            if op is sc.LITERAL and chr(av) == '/' and i + 1 < len(items) and items[i + 1][0] is sc.LITERAL and chr(items[i + 1][1]) == '/':
                # // up to the end of the line
                j = i + 2
                while j < len(items) and items[j][0] in (sc.MAX_REPEAT, sc.MIN_REPEAT) and len(items[j][1][2]) == 1 and \
                        items[j][1][2][0][0] in (sc.NOT_LITERAL, sc.IN, sc.ANY):
                    j += 1
                info['line-comment'] = True
                i = j
                continue
            if op is sc.LITERAL and chr(av) == '/' and i + 1 < len(items) and items[i + 1][0] is sc.LITERAL and chr(items[i + 1][1]) == '*':
                # /* ... */ : everything up to the closing `*/`
                j = i + 2
                while j + 1 < len(items) and not (items[j][0] is sc.LITERAL and chr(items[j][1]) == '*' and items[j + 1][0] is sc.LITERAL and chr(items[j + 1][1]) == '/'):
                    j += 1
                if j + 1 >= len(items):
                    return False
                info['block-comment'] = True
                i = j + 2
                continue
            if op in (sc.MAX_REPEAT, sc.MIN_REPEAT):
                lo, hi, sub = av
                unb = hi is sc.MAXREPEAT
                if unb:
                    info['unbounded'] = True
                if not seq(list(sub), in_loop or unb):
                    return False
                i += 1
                continue
            if op is sc.SUBPATTERN:
                if not seq(list(av[-1]), in_loop):
                    return False
                i += 1
                continue
            if op is sc.BRANCH:
                for br in av[1]:
                    if not seq(list(br), in_loop):
                        return False
                i += 1
                continue
            return False
        return True
    if not seq(tree, False):
        return None
    if not any(info[k] for k in ('blank', 'cr', 'nl', 'line-comment', 'block-comment')):
        return None
    return info


def _regex_skipper_of(g: G) -> Optional[Dict[str, bool]]:
    if g.kind != 'regex':
        return None
    return regex_skipper(g.a.get('pattern', ''), g.a.get('flags', 0) or 0)


def is_blank_skipper(g: G, _st: Optional[Set[int]] = None) -> bool:
    """g can only match newlines, whitespace and comments (possibly none)."""
    _st = _st or set()
    if g.uid in _st:
        return False
    _st = _st | {g.uid}
    if g.kind == 'lit':
        return g.a['text'].strip() == '' and g.a['text'] != ''
    if g.kind in ('lineend', 'white', 'stringend'):
        return True
    if is_comment(g):
        return True
    if _regex_skipper_of(g) is not None:
        return True
    if g.kind in ('suppress', 'repeat', 'group'):
        return bool(g.kids) and is_blank_skipper(g.kids[0], _st)
    if g.kind in ('first', 'or', 'and'):
        return bool(g.kids) and all(is_blank_skipper(x, _st) for x in g.kids)
    return False


def captures_comment(g: G) -> Optional[str]:
    """Results name under which a skipper element captures comments (None if it captures none)."""
    for n in walk(g):
        if n.name and is_comment(n):
            return n.name
    return None


def lit_of(x: G) -> Optional[str]:
    while x.kind == 'suppress' and x.kids:
        x = x.kids[0]
    if x.kind == 'lit':
        return x.a['text']
    return None


OPENERS = {'{': '}', '[': ']', '(': ')'}


def bracket_lists(nodes: Iterable[G]) -> List[Tuple[G, List[G]]]:
    """Sequences that start with the literal '[' : (sequence node, flattened children)."""
    out = []
    for n in nodes:
        if n.kind == 'and':
            seq = flatten_and(n)
            if seq and lit_of(seq[0]) == '[':
                out.append((n, seq))
    # keep only maximal sequences (a nested And prefix of a longer one has the same first child)
    res = []
    seen_first: Dict[int, Tuple[G, List[G]]] = {}
    for n, seq in out:
        key = seq[0].uid
        if key not in seen_first or len(seq) > len(seen_first[key][1]):
            seen_first[key] = (n, seq)
    return list(seen_first.values())


def core_of(g: G) -> G:
    """Strip sequences that only add blank/comment skippers or zero-width assertions around one element."""
    while g.kind == 'and' and not g.actions and not g.name:
        rest = [x for x in flatten_and(g) if x.kind not in ZERO_WIDTH and not is_blank_skipper(x)]
        if len(rest) != 1:
            break
        g = rest[0]
    return g


def list_elements(seq: List[G]) -> List[G]:
    """Element positions of a bracket list `[ e (, e)* ] ...`: the nodes between the brackets that are
    neither literals nor skippers; a repetition `(',' e)[...]` contributes its inner element."""
    out: List[G] = []
    depth_close = None
    for i, x in enumerate(seq[1:], 1):
        if lit_of(x) == ']':
            depth_close = i
            break
    body = seq[1:depth_close] if depth_close else seq[1:]
    for x in body:
        if x.kind in ZERO_WIDTH or lit_of(x) is not None or is_blank_skipper(x):
            continue
        if x.kind == 'repeat' and x.kids and x.kids[0].kind == 'and':
            inner = [y for y in flatten_and(x.kids[0]) if y.kind not in ZERO_WIDTH and lit_of(y) is None and not is_blank_skipper(y)]
            out.extend(core_of(y) for y in inner)
        else:
            out.append(core_of(x))
    return out


def alternatives_of(el: G) -> List[G]:
    """Alternatives of a list element (anonymous nested alternatives are flattened)."""
    if el.kind in ('first', 'or') and not el.name and not el.actions:
        out: List[G] = []
        for a in el.kids:
            out.extend(alternatives_of(a))
        return out
    return [el]


# ----------------------------------------------------------------------------------------------
# structural comparison of two rules (G-SIBLING)
# ----------------------------------------------------------------------------------------------

def _attr_key(g: G):
    a = g.a
    k = g.kind
    if k in ('lit', 'keyword'):
        return (a['text'], bool(a.get('caseless')))
    if k == 'word':
        return (''.join(sorted(a['init'])), ''.join(sorted(a['body'])), a['min'], a['max'])
    if k == 'quoted':
        return (a['quote'], a['end'], a['esc'], a['multiline'], a['unquote'], a['convert_ws'])
    if k == 'charsnotin':
        return (''.join(sorted(a['not'])), a['min'], a['max'])
    if k == 'repeat':
        return (a['min'], a['max'])
    if k == 'oneof':
        return (a['alts'], a['caseless'])
    if k == 'regex':
        return (a['pattern'], a['flags'])
    if k == 'white':
        return (a['chars'], a['min'], a['max'])
    if k == 'combine':
        return (a.get('adjacent'), a.get('join'))
    if k == 'skipto':
        return (a.get('include'),)
    return ()


def struct_key(g: G, drop_names: FrozenSet[str] = frozenset(), _st: Optional[Dict[int, int]] = None):
    """Canonical structural description of a rule: nested anonymous sequences/alternatives are
    flattened, adjacent identical blank skippers are merged (idempotent), alternatives carrying a
    results name in `drop_names` are removed (an alternative node left with a single child is
    replaced by that child)."""
    _st = {} if _st is None else _st
    if g.uid in _st:
        return ('backref', _st[g.uid])
    _st = dict(_st)
    _st[g.uid] = len(_st)
    head = (g.kind, _attr_key(g), g.name, g.list_all, tuple(a.key for a in g.actions), g.skip_ws, g.ws)
    if g.kind == 'and':
        kids = []
        for x in flatten_and(g):
            kx = struct_key(x, drop_names, _st)
            if kx[0] == 'seq' :
                sub = list(kx[2])
            else:
                sub = [kx]
            for s in sub:
                if kids and kids[-1] == s and s[0] == 'skipper':
                    continue
                kids.append(s)
        if len(kids) == 1 and not g.name and not g.actions:
            return kids[0]
        if not g.name and not g.actions:
            return ('seq', (), tuple(kids))
        return (head, tuple(kids))
    if g.kind in ('first', 'or'):
        kids = []
        for x in flatten_alt(g, (g.kind,)):
            no = names_out(x)
            if drop_names and no and no <= drop_names:
                continue
            kx = struct_key(x, drop_names, _st)
            if kx[0] == ('alt', g.kind):
                kids.extend(kx[2])
            else:
                kids.append(kx)
        if len(kids) == 1 and not g.name and not g.actions:
            return kids[0]
        if not g.name and not g.actions:
            return (('alt', g.kind), (), tuple(kids))
        return (head, tuple(kids))
    if is_blank_skipper(g) and not g.name and nullable(g) and captures_comment(g) is None:
        return ('skipper', bool(g.kind == 'suppress'))
    return (head, tuple(struct_key(x, drop_names, _st) for x in g.kids))


def key_diff(a, b, path='') -> Optional[str]:
    """First difference between two struct keys, as a readable path."""
    if a == b:
        return None
    if not isinstance(a, tuple) or not isinstance(b, tuple):
        return f'{path}: {a!r} != {b!r}'
    if len(a) != len(b):
        return f'{path}: {len(a)} vs {len(b)} parts ({_short(a)} | {_short(b)})'
    for i, (x, y) in enumerate(zip(a, b)):
        d = key_diff(x, y, f'{path}/{i}')
        if d:
            return d
    return f'{path}: differ'


def _short(k) -> str:
    s = repr(k)
    return s if len(s) < 160 else s[:157] + '...'


def leads_with_skipper(g: G, trailing: bool = False, _st: Optional[Set[int]] = None) -> bool:
    """Every way of matching g starts (ends, if trailing) with a nullable blank/comment skipper, i.e.
    a line break is tolerated before (after) it."""
    _st = _st or set()
    if g.uid in _st:
        return False
    _st = _st | {g.uid}
    if g.kind == 'and':
        seq = [x for x in flatten_and(g) if x.kind not in ZERO_WIDTH]
        if not seq:
            return False
        x = seq[-1] if trailing else seq[0]
        if is_blank_skipper(x) and nullable(x):
            return True
        return leads_with_skipper(x, trailing, _st)
    if g.kind in ('first', 'or'):
        return all(leads_with_skipper(x, trailing, _st) for x in g.kids)
    if g.kind in WRAPPERS and g.kids:
        return leads_with_skipper(g.kids[0], trailing, _st)
    if is_blank_skipper(g) and nullable(g):
        return True
    return False


def token_count(g: G, _st: Optional[Set[int]] = None) -> Optional[Tuple[int, int]]:
    """(min, max) number of tokens an element contributes to its parent's token list."""
    _st = _st or set()
    if g.uid in _st:
        return None
    _st = _st | {g.uid}
    if g.kind == 'suppress' or g.kind in ZERO_WIDTH or g.kind in ('stringend',):
        return (0, 0)
    if value_action(g) is not None or g.kind in ('group', 'combine', 'origtext'):
        return (1, 1)
    if g.kind == 'lineend':
        return (1, 1)
    if g.kind == 'and':
        lo = hi = 0
        for x in g.kids:
            t = token_count(x, _st)
            if t is None:
                return None
            lo, hi = lo + t[0], min(INF, hi + t[1])
        return (lo, hi)
    if g.kind in ('first', 'or'):
        ts = [token_count(x, _st) for x in g.kids]
        if any(t is None for t in ts) or not ts:
            return None
        return (min(t[0] for t in ts), max(t[1] for t in ts))
    if g.kind == 'repeat':
        t = token_count(g.kids[0], _st)
        if t is None:
            return None
        return (g.a['min'] * t[0], INF if g.a['max'] is None and t[1] else (g.a['max'] or 0) * t[1])
    if g.kind == 'forward':
        return token_count(g.kids[0], _st) if g.kids else None
    return (1, 1)


# ----------------------------------------------------------------------------------------------
# adjacency: what can immediately precede an element
# ----------------------------------------------------------------------------------------------

def parent_map(roots: Iterable[G]) -> Dict[int, List[Tuple[G, int]]]:
    pm: Dict[int, List[Tuple[G, int]]] = {}
    seen: Set[int] = set()
    for r in roots:
        for n in walk(r, seen):
            for i, k in enumerate(n.kids):
                pm.setdefault(k.uid, []).append((n, i))
    return pm


def last_elements(g: G, _st: Optional[Set[int]] = None) -> List[G]:
    """Elements that can come last in a match of g; blank skippers are atomic."""
    _st = _st or set()
    if g.uid in _st:
        return []
    _st = _st | {g.uid}
    if is_blank_skipper(g):
        return [g]
    if g.kind == 'and':
        out: List[G] = []
        for x in reversed(g.kids):
            if x.kind in ZERO_WIDTH:
                continue
            out.extend(last_elements(x, _st))
            if not nullable(x):
                break
        return out
    if g.kind in ('first', 'or', 'each'):
        out = []
        for x in g.kids:
            out.extend(last_elements(x, _st))
        return out
    if (g.kind == 'repeat' or g.kind in WRAPPERS) and g.kids:
        return last_elements(g.kids[0], _st)
    return [g]


def preceders(g: G, pm: Dict[int, List[Tuple[G, int]]], _st: Optional[Set[int]] = None, depth: int = 0) -> List[G]:
    """Elements that can immediately precede a match of g in some context."""
    _st = _st or set()
    if g.uid in _st or depth > 40:
        return []
    _st = _st | {g.uid}
    out: List[G] = []
    for p, i in pm.get(g.uid, []):
        if p.kind == 'and':
            j = i - 1
            reached_start = True
            while j >= 0:
                x = p.kids[j]
                if x.kind in ZERO_WIDTH:
                    j -= 1
                    continue
                out.extend(last_elements(x))
                if not nullable(x):
                    reached_start = False
                    break
                j -= 1
            if reached_start:
                out.extend(preceders(p, pm, _st, depth + 1))
        elif p.kind == 'repeat':
            if p.a['max'] is None or p.a['max'] > 1:
                out.extend(last_elements(g))
            out.extend(preceders(p, pm, _st, depth + 1))
        else:
            out.extend(preceders(p, pm, _st, depth + 1))
    return out


def skipper_accepts_comments(g: G) -> bool:
    return any(is_comment(n) or ((_regex_skipper_of(n) or {}).get('line-comment') or (_regex_skipper_of(n) or {}).get('block-comment')) for n in walk(g))


def swallows_comment_lines(g: G) -> bool:
    """g contains an unbounded repetition whose body accepts both comments and line breaks, i.e. it can
    consume a whole block of comment lines (a skipper that needs a line end after its comments, or an
    optional single trailing comment, cannot)."""
    for n in walk(g):
        rs = _regex_skipper_of(n)
        if rs is not None and rs['unbounded'] and rs['nl'] and (rs['line-comment'] or rs['block-comment']):
            return True
        if n.kind == 'repeat' and n.a.get('max') is None and n.kids:
            body = n.kids[0]
            alts = flatten_alt(body, ('first', 'or')) if body.kind in ('first', 'or') else [body]
            has_comment = any(is_comment(a) or any(is_comment(x) for x in walk(a)) for a in alts)
            has_nl = False
            for a in alts:
                if is_comment(a):
                    continue
                for x in walk(a):
                    if (x.kind == 'lit' and '\n' in x.a['text']) or x.kind == 'lineend' or (x.kind == 'white' and '\n' in x.a.get('chars', '')):
                        has_nl = True
            if has_comment and has_nl:
                return True
    return False


def leading_capture(g: G) -> Optional[Tuple[G, str]]:
    """(skipper node, results name) if every match of the sequence g starts with a comment-capturing
    blank skipper."""
    seq = [x for x in flatten_and(g) if x.kind not in ZERO_WIDTH] if g.kind == 'and' else [g]
    if not seq:
        return None
    x = seq[0]
    if is_blank_skipper(x):
        nm = captures_comment(x)
        return (x, nm) if nm else None
    return None


def unsuppressed_comments(g: G, top: bool = True, _st: Optional[Set[int]] = None) -> List[G]:
    """Comment tokens inside g whose text reaches g's token list (not below Suppress, not below an
    element whose own action replaces the tokens)."""
    _st = _st or set()
    if g.uid in _st:
        return []
    _st = _st | {g.uid}
    if g.kind in ('suppress', 'lookahead', 'notany'):
        return []
    if is_comment(g):
        return [g]
    if not top and (value_action(g) is not None):
        return []
    out: List[G] = []
    for k in g.kids:
        out.extend(unsuppressed_comments(k, False, _st))
    return out


# ----------------------------------------------------------------------------------------------
# regular-expression tokens (re._parser ASTs)
# ----------------------------------------------------------------------------------------------

def _sre():
    import re._parser as sp      # Python 3.11+
    import re._constants as sc
    return sp, sc


def _set_has(items, ch: int, sc) -> bool:
    neg = False
    hit = False
    for op, av in items:
        if op is sc.NEGATE:
            neg = True
        elif op is sc.LITERAL:
            hit = hit or av == ch
        elif op is sc.RANGE:
            hit = hit or av[0] <= ch <= av[1]
        elif op is sc.CATEGORY:
            c = chr(ch)
            m = {sc.CATEGORY_SPACE: c.isspace(), sc.CATEGORY_NOT_SPACE: not c.isspace(), sc.CATEGORY_DIGIT: c.isdigit(),
                 sc.CATEGORY_NOT_DIGIT: not c.isdigit(), sc.CATEGORY_WORD: c.isalnum() or c == '_',
                 sc.CATEGORY_NOT_WORD: not (c.isalnum() or c == '_')}
            hit = hit or m.get(av, True)
    return hit != neg


def _seq_can_consume(seq, ch: int, flags: int, sc) -> bool:
    import re
    for op, av in seq:
        if op is sc.LITERAL and av == ch:
            return True
        if op is sc.NOT_LITERAL and av != ch:
            return True
        if op is sc.ANY and (flags & re.DOTALL or ch != 10):
            return True
        if op is sc.IN and _set_has(av, ch, sc):
            return True
        if op is sc.BRANCH and any(_seq_can_consume(b, ch, flags, sc) for b in av[1]):
            return True
        if op is sc.SUBPATTERN and _seq_can_consume(av[-1], ch, flags, sc):
            return True
        if op in (sc.MAX_REPEAT, sc.MIN_REPEAT) and _seq_can_consume(av[2], ch, flags, sc):
            return True
        if hasattr(sc, 'POSSESSIVE_REPEAT') and op is sc.POSSESSIVE_REPEAT and _seq_can_consume(av[2], ch, flags, sc):
            return True
        if hasattr(sc, 'ATOMIC_GROUP') and op is sc.ATOMIC_GROUP and _seq_can_consume(av, ch, flags, sc):
            return True
    return False


def _literal_prefix(seq, sc) -> str:
    out = []
    for op, av in seq:
        if op is sc.LITERAL:
            out.append(chr(av))
            continue
        if op is sc.SUBPATTERN:
            inner = av[-1]
            if len(inner) == 1 and inner[0][0] is sc.BRANCH:
                break
            out.append(_literal_prefix(inner, sc))
            # continue only if the whole group was literal
            if all(o is sc.LITERAL for o, _ in inner):
                continue
        break
    return ''.join(out)


def regex_branches(pattern: str, flags: int = 0) -> List[Tuple[str, bool]]:
    """Top-level alternatives of a regular expression: (literal prefix, can consume a line break)."""
    sp, sc = _sre()
    tree = sp.parse(pattern, flags)
    seq = list(tree)
    while len(seq) == 1 and seq[0][0] is sc.SUBPATTERN:
        seq = list(seq[0][1][-1])
    if seq and seq[-1][0] is sc.BRANCH and all(op is sc.LITERAL for op, _ in seq[:-1]):
        # the parser factors a common literal prefix out of the alternatives: put it back
        branches = [list(seq[:-1]) + list(b) for b in seq[-1][1][1]]
    else:
        branches = [seq]
    out = []
    for b in branches:
        bb = b
        while len(bb) == 1 and bb[0][0] is sc.SUBPATTERN:
            bb = list(bb[0][1][-1])
        out.append((_literal_prefix(bb, sc), _seq_can_consume(bb, 10, flags, sc)))
    return out


def comment_forms(g: G) -> Optional[List[Tuple[str, bool]]]:
    """[(form, can a LINE comment run over a line break / does the block form have its terminator)] for a
    comment token, None if g is not one.  form in 'line' | 'block'."""
    while g.kind == 'suppress' and g.kids:
        g = g.kids[0]
    alts = flatten_alt(g, ('first', 'or')) if g.kind in ('first', 'or') else [g]
    out: List[Tuple[str, bool]] = []
    for a in alts:
        if a.kind == 'and':
            f = is_comment_form(a)
            if f is None:
                return None
            out.append((f, False))
        elif a.kind == 'regex':
            try:
                brs = regex_branches(a.a['pattern'], a.a.get('flags', 0) or 0)
            except Exception:
                return None
            for prefix, nl in brs:
                if prefix.startswith('//'):
                    out.append(('line', nl))
                elif prefix.startswith('/*'):
                    out.append(('block', False))
                else:
                    return None
        else:
            return None
    return out or None
