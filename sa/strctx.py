"""E5 - string-context analysis of the renderer templates.

For every f-string / `+` concatenation in a function, each non-literal hole gets
  * a quote state (which quote the literal text to its left has left open: ', ", ''', `, or none),
  * the literal text immediately left and right of it,
  * the chain of wrapper calls applied to the underlying value (sanitisers, helpers, str methods),
  * a provenance: attribute path rooted at a parameter / loop variable, a parameter, or other,
  * the branch tests that enclose it.
Helper functions are summarised per string parameter so that call sites inherit the contexts inside
the helper (quote_string, note_option_to_dbml, default_to_str, get_full_name_for_*, ...).
Sanitiser bodies (re.sub with a literal pattern, str.replace) are read semantically."""
from __future__ import annotations

import ast
from dataclasses import dataclass, field
from typing import Dict, List, Optional, Set, Tuple

from .core import norm, Unrecognised
from .pyindex import PyIndex, FuncInfo, walk_no_nested, access_path

QUOTES = ("'''", "'", '"', '`')


@dataclass
class Sink:
    fn: FuncInfo
    node: ast.AST                 # the hole expression as written
    core: ast.AST                 # innermost value after stripping wrapper calls
    left: str
    right: str
    quote: str                    # open quote at the hole ('' = bare)
    wrappers: List[str]           # inner -> outer
    source: Tuple[str, str]       # ('attr', 'model.name') | ('param', 'text') | ('local', 'x') | ('call', ...) | ('other', src)
    guards: List[Tuple[str, bool]] = field(default_factory=list)
    template: str = ''
    arg_index: int = 0            # position of the value among the arguments of the OUTERMOST wrapper call

    @property
    def where(self) -> str:
        return f'{self.fn.file}:{getattr(self.node, "lineno", 0)}'


def flatten_concat(e: ast.AST) -> List[ast.AST]:
    """Pieces of a string-building expression in order: Constant(str) for literal text, other nodes for holes."""
    if isinstance(e, ast.BinOp) and isinstance(e.op, ast.Add):
        return flatten_concat(e.left) + flatten_concat(e.right)
    if isinstance(e, ast.JoinedStr):
        out: List[ast.AST] = []
        for v in e.values:
            if isinstance(v, ast.Constant):
                out.append(v)
            elif isinstance(v, ast.FormattedValue):
                out.append(v)
        return out
    return [e]


def quote_state(text: str, state: str = '') -> str:
    """Quote left open after scanning literal template text (backslash escapes the next character inside quotes)."""
    i = 0
    while i < len(text):
        if state:
            if text[i] == '\\' and state != '`':
                i += 2
                continue
            if text.startswith(state, i):
                i += len(state)
                state = ''
                continue
            i += 1
        else:
            for q in QUOTES:
                if text.startswith(q, i):
                    state = q
                    i += len(q)
                    break
            else:
                i += 1
    return state


def strip_wrappers(e: ast.AST) -> Tuple[ast.AST, List[str]]:
    """Peel call wrappers off a value: f(x), x.method(), str(x) -> (x, [names inner->outer])."""
    names: List[str] = []
    while True:
        if isinstance(e, ast.FormattedValue):
            e = e.value
            continue
        if isinstance(e, ast.Call):
            f = e.func
            if isinstance(f, ast.Attribute) and not e.args and f.attr in ('upper', 'lower', 'strip', 'rstrip', 'lstrip', 'title', 'casefold'):
                names.append('.' + f.attr)
                e = f.value
                continue
            if isinstance(f, ast.Attribute) and f.attr in ('replace', 'format', 'strip', 'rstrip', 'lstrip', 'encode', 'decode') and e.args:
                names.append('.' + f.attr + '(' + ', '.join(norm(a) for a in e.args) + ')')
                e = f.value
                continue
            if isinstance(f, (ast.Name, ast.Attribute)) and e.args:
                nm = f.id if isinstance(f, ast.Name) else f.attr
                if isinstance(f, ast.Attribute) and f.attr in ('render', 'sub', 'join'):
                    break
                names.append(nm)
                e = e.args[0]
                continue
        break
    names.reverse()
    return e, names


def provenance(e: ast.AST, fn: ast.AST) -> Tuple[str, str]:
    ap = access_path(e)
    params = [a.arg for a in fn.args.args] if hasattr(fn, 'args') else []
    if ap is not None:
        root = ap.split('.', 1)[0].split('[', 1)[0]
        if '.' in ap or '[' in ap:
            # local alias of an attribute path?
            return ('attr', ap)
        if root in params:
            return ('param', root)
        # loop variables / locals
        for n in ast.walk(fn):
            if isinstance(n, (ast.For, ast.comprehension)):
                for x in ast.walk(n.target):
                    if isinstance(x, ast.Name) and x.id == root:
                        return ('loop', f'{root} in {norm(n.iter)}')
        assigns = [n for n in walk_no_nested(fn) if isinstance(n, ast.Assign) and len(n.targets) == 1 and norm(n.targets[0]) == root]
        if len(assigns) == 1:
            return ('local', norm(assigns[0].value))
        return ('local', root)
    if isinstance(e, ast.Call):
        return ('call', norm(e)[:60])
    if isinstance(e, ast.Constant):
        return ('const', repr(e.value))
    return ('other', norm(e)[:60])


def _always_exits(body) -> bool:
    return bool(body) and isinstance(body[-1], (ast.Return, ast.Raise, ast.Continue, ast.Break))


def enclosing_tests(fn: ast.AST, target: ast.AST) -> List[Tuple[str, bool]]:
    """Branch tests (source, polarity) under which `target` is evaluated: enclosing if statements and conditional
    expressions, plus the negation of every earlier `if T: ... return/raise` of the same block (implicit else)."""
    out: List[Tuple[str, bool]] = []

    def rec_block(body, acc) -> bool:
        extra: List[Tuple[str, bool]] = []
        for st in body:
            if rec(st, acc + extra):
                return True
            if isinstance(st, ast.If) and not st.orelse and _always_exits(st.body):
                extra.append((norm(st.test), False))
            elif isinstance(st, ast.If) and st.orelse and _always_exits(st.body) and _always_exits(st.orelse):
                pass
        return False

    def rec(node, acc) -> bool:
        if node is target:
            out.extend(acc)
            return True
        if isinstance(node, ast.If):
            if rec_block(node.body, acc + [(norm(node.test), True)]):
                return True
            if rec_block(node.orelse, acc + [(norm(node.test), False)]):
                return True
            return rec(node.test, acc)
        if isinstance(node, ast.IfExp):
            if rec(node.body, acc + [(norm(node.test), True)]):
                return True
            if rec(node.orelse, acc + [(norm(node.test), False)]):
                return True
            return rec(node.test, acc)
        for fld, val in ast.iter_fields(node):
            if isinstance(val, list) and val and isinstance(val[0], ast.stmt):
                if rec_block(val, acc):
                    return True
            elif isinstance(val, list):
                for ch in val:
                    if isinstance(ch, ast.AST) and rec(ch, acc):
                        return True
            elif isinstance(val, ast.AST):
                if rec(val, acc):
                    return True
        return False
    rec(fn, [])
    return out


def templates_in(fn: ast.AST, const_names: Optional[Set[str]] = None) -> List[ast.AST]:
    """Maximal string-building expressions (f-strings and `+` chains that contain an f-string, a string constant or a
    local that is bound to a string constant)."""
    out: List[ast.AST] = []
    inner: Set[int] = set()
    const_names = const_names or set()
    for n in walk_no_nested(fn):
        if isinstance(n, ast.BinOp) and isinstance(n.op, ast.Add):
            ps = flatten_concat(n)
            if any(isinstance(p, ast.Constant) and isinstance(p.value, str) for p in ps) or any(isinstance(p, ast.FormattedValue) for p in ps) \
                    or any(isinstance(p, ast.Name) and p.id in const_names for p in ps):
                if id(n) not in inner:
                    out.append(n)
                # only the direct pieces of this chain belong to it; templates nested inside calls/generators are their own
                def mark(x):
                    if isinstance(x, ast.BinOp) and isinstance(x.op, ast.Add):
                        inner.add(id(x))
                        mark(x.left)
                        mark(x.right)
                    elif isinstance(x, ast.JoinedStr):
                        inner.add(id(x))
                mark(n.left)
                mark(n.right)
    for n in walk_no_nested(fn):
        if isinstance(n, ast.JoinedStr) and id(n) not in inner:
            out.append(n)
    return out


def _const_bindings(fn: ast.AST) -> Dict[str, List[Tuple[ast.AST, Optional[Tuple[str, bool]]]]]:
    """Locals bound exactly once to a string constant or to `A if T else B` with constant arms:
    name -> [(constant node, extra guard or None)]."""
    counts: Dict[str, int] = {}
    vals: Dict[str, ast.AST] = {}
    for n in walk_no_nested(fn):
        if isinstance(n, ast.Name) and isinstance(n.ctx, ast.Store):
            counts[n.id] = counts.get(n.id, 0) + 1
        if isinstance(n, ast.Assign) and len(n.targets) == 1 and isinstance(n.targets[0], ast.Name):
            vals[n.targets[0].id] = n.value
    out: Dict[str, List[Tuple[ast.AST, Optional[Tuple[str, bool]]]]] = {}
    for k, v in vals.items():
        if counts.get(k) != 1:
            continue
        if isinstance(v, ast.Constant) and isinstance(v.value, str):
            out[k] = [(v, None)]
        elif isinstance(v, ast.IfExp) and isinstance(v.body, ast.Constant) and isinstance(v.orelse, ast.Constant) \
                and isinstance(v.body.value, str) and isinstance(v.orelse.value, str):
            out[k] = [(v.body, (norm(v.test), True)), (v.orelse, (norm(v.test), False))]
    return out


def _variants(pieces: List[ast.AST], binds) -> List[Tuple[List[ast.AST], List[Tuple[str, bool]]]]:
    """Template piece lists with constant-bound names replaced by their constants (one variant per combination of
    conditional constants that share a test)."""
    res: List[Tuple[List[ast.AST], List[Tuple[str, bool]]]] = [([], [])]
    for p in pieces:
        core = p.value if isinstance(p, ast.FormattedValue) else p
        if isinstance(core, ast.Name) and core.id in binds:
            nxt = []
            for ps, gs in res:
                for cnode, g in binds[core.id]:
                    if g is not None and any(x[0] == g[0] and x[1] != g[1] for x in gs):
                        continue            # contradictory arm of the same test
                    nxt.append((ps + [cnode], gs + ([g] if g is not None and g not in gs else [])))
            res = nxt
        else:
            res = [(ps + [p], gs) for ps, gs in res]
    return res[:8]


def sinks_of(fi: FuncInfo) -> List[Sink]:
    out: List[Sink] = []
    fn = fi.node
    binds = _const_bindings(fn)
    for t in templates_in(fn, set(binds)):
      for pieces, extra_guards in _variants(flatten_concat(t), binds):
        tsrc = norm(t)
        state = ''
        for i, p in enumerate(pieces):
            if isinstance(p, ast.Constant) and isinstance(p.value, str):
                state = quote_state(p.value, state)
                continue
            if isinstance(p, ast.Constant):
                continue
            left = pieces[i - 1].value if i > 0 and isinstance(pieces[i - 1], ast.Constant) and isinstance(pieces[i - 1].value, str) else ''
            right = pieces[i + 1].value if i + 1 < len(pieces) and isinstance(pieces[i + 1], ast.Constant) and isinstance(pieces[i + 1].value, str) else ''
            for argi, pe in multi_args(p):
                core, wr = strip_wrappers(pe)
                core, wr = resolve_local_chain(fn, core, wr, getattr(p, 'lineno', 0))
                q = state
                if not state and i > 0 and not isinstance(pieces[i - 1], ast.Constant):
                    q = '?'            # preceded by a non-literal piece: the quote context cannot be read off the template
                out.append(Sink(fi, p, core, left, right, q, wr, provenance(core, fn), enclosing_tests(fn, p) + list(extra_guards), tsrc, argi))
    # bare sinks: a data value handed on without any template around it
    in_template: Set[int] = set()
    for t in templates_in(fn, set(binds)):
        for x in ast.walk(t):
            in_template.add(id(x))
    for n in walk_no_nested(fn):
        cand = None
        if isinstance(n, ast.Call) and isinstance(n.func, ast.Attribute) and n.func.attr == 'append' and len(n.args) == 1:
            cand = n.args[0]
        elif isinstance(n, ast.AugAssign) and isinstance(n.op, ast.Add):
            cand = n.value
        elif isinstance(n, ast.Return) and isinstance(n.value, ast.Call):
            cand = n.value          # pass-through helper: return other_helper(param)
        if cand is None or id(cand) in in_template or isinstance(cand, (ast.Constant, ast.JoinedStr, ast.BinOp)):
            continue
        for argi, pe in multi_args(cand):
            core, wr = strip_wrappers(pe)
            if isinstance(core, (ast.Attribute, ast.Name, ast.Subscript)):
                src = provenance(core, fn)
                if src[0] in ('attr', 'loop', 'param'):
                    out.append(Sink(fi, cand, core, '', '', '', wr, src, enclosing_tests(fn, cand), norm(n)[:80], argi))
    # when the templates of this function cannot be read as they stand (a piece that is a local bound in branches, a list joined with '', ...), read the
    # returned text path by path instead
    unreadable = any(s.quote == '?' for s in out)
    returns_text = any(isinstance(r.value, ast.Call) and isinstance(r.value.func, ast.Attribute) and r.value.func.attr == 'join' and isinstance(r.value.func.value, ast.Constant)
                       and r.value.func.value.value == '' for r in walk_no_nested(fn) if isinstance(r, ast.Return) and r.value is not None)
    if unreadable or (returns_text and not any(s.quote for s in out)):
        try:
            ps = path_sinks(fi)
        except RecursionError:        # pragma: no cover
            ps = []
        if ps and not any(s.quote == '?' for s in ps):
            return ps
    return out


def path_sinks(fi: FuncInfo, consts: Optional[Dict[str, str]] = None) -> List[Sink]:
    """Sinks read off the abstractly evaluated return text of every path (sa/strval.py): works whatever way the text is assembled - locals bound in
    branches, lists joined with '', constants, conditional pieces - at the price of covering returned text only."""
    from .strval import skeleton_paths, _MARK, HOLE, STAR
    out: List[Sink] = []
    fn = fi.node
    if not isinstance(fn, ast.FunctionDef):
        return out
    seen: Dict[tuple, Sink] = {}
    for lits, alt, tests, exprs in skeleton_paths(fn, unroll=1, consts=consts):
        pos = 0
        state = ''
        prev_was_hole = False
        marks = list(_MARK.finditer(alt))
        for k, m in enumerate(marks):
            left = alt[pos:m.start()]
            state = quote_state(left, state)
            nxt_start = marks[k + 1].start() if k + 1 < len(marks) else len(alt)
            right = alt[m.end():nxt_start]
            pos = m.end()
            kind, label = m.group(1), m.group(2)
            adjacent = prev_was_hole and left == ''
            prev_was_hole = True
            if kind not in (HOLE, STAR):
                continue
            e = exprs.get(label)
            if e is None or isinstance(e, ast.Constant):
                continue
            for argi, pe in multi_args(e):
                core, wr = strip_wrappers(pe)
                if not isinstance(core, (ast.Attribute, ast.Name, ast.Subscript, ast.Call)):
                    continue
                q = state
                if not state and adjacent:
                    q = '?'
                # one sink per (expression, context): the guards kept are those common to every path that writes it there
                key = (id(e), q, argi, left[-1:])
                if key in seen:
                    sk = seen[key]
                    sk.guards = [g for g in sk.guards if g in tests]
                    # the context kept is what all paths agree on: common suffix to the left, common prefix to the right
                    n_ = 0
                    while n_ < min(len(sk.left), len(left)) and sk.left[len(sk.left) - 1 - n_] == left[len(left) - 1 - n_]:
                        n_ += 1
                    sk.left = sk.left[len(sk.left) - n_:]
                    m_ = 0
                    while m_ < min(len(sk.right), len(right)) and sk.right[m_] == right[m_]:
                        m_ += 1
                    sk.right = sk.right[:m_]
                    continue
                sk = Sink(fi, e, core, left, right, q, wr, provenance(core, fn), list(tests), norm(e)[:80], argi)
                seen[key] = sk
                out.append(sk)
    return out


def multi_args(p: ast.AST) -> List[Tuple[int, ast.AST]]:
    """A hole that is a call of a plain function with several positional data arguments is one sink per argument:
    [(argument position, pseudo-expression f(arg))]; any other hole is a single sink."""
    e = p.value if isinstance(p, ast.FormattedValue) else p
    if isinstance(e, ast.Call) and isinstance(e.func, ast.Name) and len(e.args) >= 2 and not e.keywords \
            and all(isinstance(a, (ast.Name, ast.Attribute, ast.Subscript)) for a in e.args):
        out = []
        for i, a in enumerate(e.args):
            c = ast.Call(func=e.func, args=[a], keywords=[])
            ast.copy_location(c, e)
            out.append((i, c))
        return out
    return [(0, p)]


def resolve_local_chain(fn: ast.AST, core: ast.AST, wr: List[str], line: int, depth: int = 0) -> Tuple[ast.AST, List[str]]:
    """x = f(model.a); x = g(x); use(x)  ->  core model.a, wrappers [f, g] (+ those already around the use)."""
    if depth > 6 or not isinstance(core, ast.Name):
        return core, wr
    args = fn.args
    if core.id in [a.arg for a in list(args.args) + list(args.kwonlyargs)]:
        return core, wr
    assigns = sorted([n for n in walk_no_nested(fn) if isinstance(n, ast.Assign) and len(n.targets) == 1 and norm(n.targets[0]) == core.id
                      and n.lineno < line], key=lambda n: n.lineno)
    if not assigns:
        return core, wr
    a = assigns[-1]
    c2, w2 = strip_wrappers(a.value)
    if isinstance(c2, (ast.JoinedStr, ast.BinOp, ast.Constant)):
        return core, wr
    c3, w3 = resolve_local_chain(fn, c2, w2, a.lineno, depth + 1)
    return c3, w3 + wr


# ----------------------------------------------------------------------------------------------
# sanitiser bodies
# ----------------------------------------------------------------------------------------------

@dataclass
class Sanitiser:
    escapes: Dict[str, str]        # sequence -> replacement (for regex subs: each alternative literal -> replacement template applied)
    removes: Set[str]
    notes: List[str]


def _const_pattern(a0: ast.AST, consts: Dict[str, object]) -> Optional[str]:
    """A regular expression given as a literal, or assembled from literals and `re.escape(<parameter with a known constant value>)`."""
    import re as _re
    if isinstance(a0, ast.Constant) and isinstance(a0.value, str):
        return a0.value
    if isinstance(a0, (ast.BinOp, ast.JoinedStr)):
        out = []
        for p_ in flatten_concat(a0):
            core = p_.value if isinstance(p_, ast.FormattedValue) else p_
            if isinstance(core, ast.Constant) and isinstance(core.value, str):
                out.append(core.value)
            elif isinstance(core, ast.Call) and norm(core.func) in ('re.escape', 'escape') and len(core.args) == 1:
                a = core.args[0]
                v = a.value if isinstance(a, ast.Constant) else (consts.get(a.id) if isinstance(a, ast.Name) else None)
                if not isinstance(v, str):
                    return None
                out.append(_re.escape(v))
            elif isinstance(core, ast.Name) and isinstance(consts.get(core.id), str):
                out.append(consts[core.id])
            else:
                return None
        return ''.join(out)
    return None


def sanitiser_of(idx: PyIndex, fi: FuncInfo, consts: Optional[Dict[str, object]] = None) -> Optional[Sanitiser]:
    """Read a text-preparing helper: re.compile(<literal>).sub(<literal>, text) and str.replace(<lit>, <lit>) steps.  `consts` gives the constant values of
    parameters at the call site under consideration (parameters not named take their constant defaults)."""
    consts = dict(consts or {})
    if isinstance(fi.node, ast.FunctionDef):
        a_ = fi.node.args
        names_ = [x.arg for x in a_.args]
        for pn, d in zip(names_[len(names_) - len(a_.defaults):], a_.defaults):
            if isinstance(d, ast.Constant):
                consts.setdefault(pn, d.value)
    esc: Dict[str, str] = {}
    removes: Set[str] = set()
    notes: List[str] = []
    pats: Dict[str, str] = {}
    found = False
    alt_pats: Dict[str, List[str]] = {}
    for n in walk_no_nested(fi.node):
        if isinstance(n, ast.Assign) and len(n.targets) == 1 and isinstance(n.targets[0], ast.Name) and isinstance(n.value, ast.Call) \
                and norm(n.value.func) in ('re.compile', 'compile') and n.value.args:
            a0 = n.value.args[0]
            if isinstance(a0, ast.Constant):
                pats[n.targets[0].id] = a0.value
            elif _const_pattern(a0, consts) is not None:
                pats[n.targets[0].id] = _const_pattern(a0, consts)
            elif isinstance(a0, ast.IfExp) and isinstance(a0.body, ast.Constant) and isinstance(a0.orelse, ast.Constant):
                # the pattern depends on a mode flag: only what every mode rewrites is guaranteed
                pats[n.targets[0].id] = a0.body.value
                alt_pats[n.targets[0].id] = [a0.body.value, a0.orelse.value]
                notes_mode = f'the pattern depends on `{norm(a0.test)}`'
    # module-level compiled patterns used by name
    for n in walk_no_nested(fi.node):
        if isinstance(n, ast.Call) and isinstance(n.func, ast.Attribute) and n.func.attr == 'sub' and isinstance(n.func.value, ast.Name) \
                and n.func.value.id not in pats:
            sym = idx.resolve(fi.module, n.func.value.id)
            if sym is not None and sym.kind == 'assign' and isinstance(sym.node, ast.Call) and norm(sym.node.func) in ('re.compile', 'compile') \
                    and sym.node.args and isinstance(sym.node.args[0], ast.Constant):
                pats[n.func.value.id] = sym.node.args[0].value
    for n in walk_no_nested(fi.node):
        if isinstance(n, ast.Call) and isinstance(n.func, ast.Attribute) and n.func.attr == 'sub':
            pat = None
            repl_fn = n.args[0] if n.args else None
            if isinstance(repl_fn, ast.Name):
                # a named replacement function of one `return <expression>`: read like the lambda it stands for
                sym = idx.resolve(fi.module, repl_fn.id)
                fdef = idx.funcs.get(f'{sym.module}:{sym.name}') if sym is not None and sym.kind == 'func' else None
                if fdef is not None and isinstance(fdef.node, ast.FunctionDef):
                    body_ = [b_ for b_ in fdef.node.body if not (isinstance(b_, ast.Expr) and isinstance(b_.value, ast.Constant))]
                    if len(body_) == 1 and isinstance(body_[0], ast.Return) and body_[0].value is not None:
                        repl_fn = ast.Lambda(args=fdef.node.args, body=body_[0].value)
            if isinstance(n.func.value, ast.Name) and n.func.value.id in pats and len(n.args) >= 2 and isinstance(repl_fn, ast.Lambda):
                r = lambda_repl(repl_fn)
                if r is not None:
                    pat, repl = pats[n.func.value.id], r
            if isinstance(n.func.value, ast.Name) and n.func.value.id in pats and len(n.args) >= 2 and isinstance(n.args[0], ast.Constant):
                pat, repl = pats[n.func.value.id], n.args[0].value
            elif norm(n.func.value) == 're' and len(n.args) >= 3 and isinstance(n.args[0], ast.Constant) and isinstance(n.args[1], ast.Constant):
                pat, repl = n.args[0].value, n.args[1].value
            if pat is None:
                notes.append(f'unreadable substitution `{norm(n)[:50]}`')
                continue
            found = True
            variants = [pat]
            if isinstance(n.func.value, ast.Name) and n.func.value.id in alt_pats:
                variants = alt_pats[n.func.value.id]
            per_variant: List[Dict[str, str]] = []
            for pv in variants:
                d: Dict[str, str] = {}
                for lit in regex_literal_alternatives(pv):
                    if lit is None:
                        notes.append(f'pattern {pv!r} has a non-literal alternative')
                        continue
                    d[lit] = apply_repl(repl, lit)
                per_variant.append(d)
            common = set(per_variant[0])
            for d in per_variant[1:]:
                common &= set(d)
            for lit in common:
                out = per_variant[0][lit]
                if out == '':
                    removes.add(lit)
                else:
                    esc[lit] = out
        if isinstance(n, ast.Call) and isinstance(n.func, ast.Attribute) and n.func.attr == 'replace' and len(n.args) == 2 \
                and all(isinstance(a, ast.Constant) and isinstance(a.value, str) for a in n.args):
            found = True
            a, b = n.args[0].value, n.args[1].value
            if b == '':
                removes.add(a)
            else:
                esc[a] = b
    if not found:
        return None
    return Sanitiser(esc, removes, notes)


def lambda_repl(lam: ast.Lambda) -> Optional[str]:
    """Replacement template equivalent to `lambda m: 'const' + m.group(k) + ...` (None if the lambda is anything else)."""
    if len(lam.args.args) != 1:
        return None
    m = lam.args.args[0].arg
    out = []
    for p in flatten_concat(lam.body):
        core = p.value if isinstance(p, ast.FormattedValue) else p
        if isinstance(core, ast.Constant) and isinstance(core.value, str):
            out.append(core.value.replace('\\', '\\\\'))
        elif isinstance(core, ast.Call) and isinstance(core.func, ast.Attribute) and core.func.attr == 'group' and norm(core.func.value) == m \
                and (not core.args or (isinstance(core.args[0], ast.Constant) and isinstance(core.args[0].value, int))):
            out.append('\\' + str(core.args[0].value if core.args else 0))
        elif isinstance(core, ast.Subscript) and norm(core.value) == m and isinstance(core.slice, ast.Constant) and isinstance(core.slice.value, int):
            out.append('\\' + str(core.slice.value))
        else:
            return None
    return ''.join(out)


def regex_literal_alternatives(pat: str, blanks: bool = False) -> List[Optional[str]]:
    """Literal strings a pattern can match when it is a finite union of literals (None entries for
    alternatives that are not literal).  With blanks=True a run of blanks (`[ \\t]+`, `\\s+`, ` +`) between words stands for one space: the
    result is then a representative of each alternative, not the full language."""
    import re._parser as sp
    import re._constants as sc

    def blank_item(item) -> bool:
        op, av = item
        if op is sc.LITERAL:
            return chr(av) in ' \t'
        if op is sc.IN:
            return all((o is sc.LITERAL and chr(v) in ' \t\n\r\f\v') or (o is sc.CATEGORY and v is sc.CATEGORY_SPACE) for o, v in av)
        return False

    def expand(seq) -> Optional[List[str]]:
        acc = ['']
        for op, av in seq:
            if blanks and op in (sc.MAX_REPEAT, sc.MIN_REPEAT) and av[0] >= 1 and len(av[2]) == 1 and blank_item(av[2][0]):
                acc = [a + ' ' for a in acc]
                continue
            if op is sc.LITERAL:
                acc = [a + chr(av) for a in acc]
            elif op is sc.SUBPATTERN:
                inner = expand(list(av[-1]))
                if inner is None:
                    return None
                acc = [a + b for a in acc for b in inner]
            elif op is sc.BRANCH:
                alts: List[str] = []
                for br in av[1]:
                    e = expand(list(br))
                    if e is None:
                        return None
                    alts.extend(e)
                acc = [a + b for a in acc for b in alts]
            else:
                return None
            if len(acc) > 64:
                return None
        return acc
    res = expand(list(sp.parse(pat)))
    if res is None:
        return [None]
    return list(res)


def apply_repl(repl: str, matched: str) -> str:
    """Expand a re.sub replacement template for a match of one literal (group 0/1 = the literal)."""
    out = []
    i = 0
    while i < len(repl):
        c = repl[i]
        if c == '\\' and i + 1 < len(repl):
            d = repl[i + 1]
            if d.isdigit():
                out.append(matched)
                i += 2
                continue
            if d == 'g' and repl[i + 2:i + 3] == '<':
                j = repl.index('>', i)
                out.append(matched)
                i = j + 1
                continue
            out.append({'n': '\n', 't': '\t', '\\': '\\'}.get(d, d))
            i += 2
            continue
        out.append(c)
        i += 1
    return ''.join(out)


# ----------------------------------------------------------------------------------------------
# helper summaries: contexts a string parameter ends up in
# ----------------------------------------------------------------------------------------------

ANCHOR_HELPERS = {'get_full_name_for_sql', 'get_full_name_for_dbml', 'prepare_text_for_sql', 'prepare_text_for_dbml', 'comment_to_sql', 'comment_to_dbml', 'string_to_dbml',
                  'quote_string', 'note_option_to_dbml', 'name_to_dbml', 'escape_braces', 'validate_for_dbml', 'validate_for_sql', 'render_col', 'get_references_for_sql',
                  'get_inline_references_for_sql', 'generate_comment_on', 'doublequote_string', 'default_to_str', 'col_names', 'indent', 'comment', 'remove_bom',
                  'strip_empty_lines', 'remove_indentation', 'reformat_note_text', 'render_options', 'render_subjects', 'render_subject', 'render_items',
                  'render_column_notes', 'create_components', 'create_body', 'generate_inline_sql', 'generate_not_inline_sql', 'generate_many_to_many_sql',
                  'render_inline_reference', 'render_not_inline_reference', 'reorder_tables_for_sql', 'render', 'render_db', 'table_is_composite_pk'}


def access_path_simple(e: ast.AST) -> bool:
    while isinstance(e, ast.Attribute):
        e = e.value
    return isinstance(e, ast.Name)


class TemplateIndex:
    def __init__(self, idx: PyIndex, modules_prefix: Tuple[str, ...] = ('pydbml.renderer.', 'pydbml.tools'), innermost_context: bool = False):
        # innermost_context: for outer(helper(value)) where outer() only places the text, report the context helper() writes the value in
        self.innermost_context = innermost_context
        self.idx = idx
        self.funcs: Dict[str, FuncInfo] = {fid: fi for fid, fi in idx.funcs.items()
                                           if fi.module.startswith(modules_prefix) and not isinstance(fi.node, ast.Lambda)}
        # small fragment helpers the rules do not know by name (a function that returns one formatted piece) are read in place, so that a template split over
        # such helpers shows the same sinks as the template written out; the helpers the rules name stay calls
        from .inline import inline_fragments
        self.funcs = {fid: inline_fragments(idx, fi, keep=ANCHOR_HELPERS) for fid, fi in self.funcs.items()}
        # `return A if T else B` (what a dispatching helper becomes once its branches are expressions): one return per branch, so that each is read under its test
        from .strval import _LiftIfExp
        from .inline import _HoistIfExp, _SimplifyIfExp
        import copy as _copy
        # a conditional piece inside an f-string / concatenation makes the whole text conditional - also in functions in which nothing was expanded
        for fid, fi in list(self.funcs.items()):
            if isinstance(fi.node, ast.FunctionDef) and any(isinstance(v_, ast.FormattedValue) and isinstance(v_.value, ast.IfExp) for v_ in ast.walk(fi.node)):
                node = _SimplifyIfExp().visit(_HoistIfExp().visit(_copy.deepcopy(fi.node)))
                ast.fix_missing_locations(node)
                self.funcs[fid] = FuncInfo(fi.module, fi.qualname, node, fi.cls, fi.kind)
        for fid, fi in list(self.funcs.items()):
            if isinstance(fi.node, ast.FunctionDef) and any(isinstance(r, ast.Return) and isinstance(r.value, ast.IfExp) for r in ast.walk(fi.node)):
                node = _LiftIfExp().visit(_copy.deepcopy(fi.node))
                ast.fix_missing_locations(node)
                self.funcs[fid] = FuncInfo(fi.module, fi.qualname, node, fi.cls, fi.kind)
        self.sinks: Dict[str, List[Sink]] = {fid: sinks_of(fi) for fid, fi in self.funcs.items()}

    def resolve_func(self, fi: FuncInfo, name: str) -> Optional[FuncInfo]:
        sym = self.idx.resolve(fi.module, name)
        if sym is not None and sym.kind == 'func':
            return self.idx.funcs.get(f'{sym.module}:{sym.name}')
        return None

    def all_sinks(self) -> List[Sink]:
        return [s for ss in self.sinks.values() for s in ss]

    def param_contexts(self, fi: FuncInfo, param: str, depth: int = 0) -> List[Sink]:
        """Sinks inside helper `fi` (and helpers it passes the value on to) whose underlying value is the parameter
        `param` (or an attribute of it)."""
        out: List[Sink] = []
        if depth > 6:
            return out
        for s in self.sinks.get(fi.id, []):
            src = s.source
            root = None
            if src[0] == 'param' and src[1] == param:
                root = param
            elif src[0] == 'attr' and src[1].split('.', 1)[0] == param:
                root = param
            if root is None:
                continue
            out.append(s)
        return out

    def expand(self, s: Sink, depth: int = 0) -> List[Tuple[Sink, List[str]]]:
        """Final contexts of a sink: if its wrappers include package helpers that build strings around their
        parameter, descend into them.  Returns [(innermost sink, wrapper names seen on the way)]; the guards met on
        the way are accumulated on a copy of the innermost sink."""
        return [(f, w) for f, w, _ in self.expand_g(s, depth)]

    def expand_g(self, s: Sink, depth: int = 0) -> List[Tuple[Sink, List[str], List[Tuple[str, bool]]]]:
        return [(f, w, g) for f, w, g, _ in self.expand_c(s, depth)]

    @staticmethod
    def _arg_map(s: Sink, w: str, callee: FuncInfo) -> Dict[str, str]:
        """Parameters of `callee` bound to plain names / attribute paths by the wrapper call `w(...)` inside the hole of `s`: {parameter: source of the argument}."""
        call = None
        for x in ast.walk(s.node):
            if isinstance(x, ast.Call) and ((isinstance(x.func, ast.Name) and x.func.id == w) or (isinstance(x.func, ast.Attribute) and x.func.attr == w)):
                call = x
                break
        if call is None or not isinstance(callee.node, ast.FunctionDef):
            return {}
        params = [x.arg for x in callee.node.args.args]
        out: Dict[str, str] = {}
        for pn, a in zip(params, call.args):
            if isinstance(a, ast.Name) or (isinstance(a, ast.Attribute) and access_path_simple(a)):
                out[pn] = norm(a)
        for k in call.keywords:
            if k.arg and (isinstance(k.value, ast.Name) or (isinstance(k.value, ast.Attribute) and access_path_simple(k.value))):
                out[k.arg] = norm(k.value)
        return out

    @staticmethod
    def _const_args(s: Sink, w: str, callee: FuncInfo) -> Dict[str, object]:
        """Parameters of `callee` that the wrapper call `w(...)` inside the hole of `s` binds to constants (explicitly or by default)."""
        call = None
        for x in ast.walk(s.node):
            if isinstance(x, ast.Call) and ((isinstance(x.func, ast.Name) and x.func.id == w) or (isinstance(x.func, ast.Attribute) and x.func.attr == w)):
                call = x
                break
        if call is None or not isinstance(callee.node, ast.FunctionDef):
            return {}
        a = callee.node.args
        params = [x.arg for x in a.args]
        out: Dict[str, object] = {}
        bound = set()
        def fold(v):
            if isinstance(v, ast.Constant):
                return True, v.value
            if isinstance(v, ast.BinOp) and isinstance(v.op, ast.Add):
                a, b = fold(v.left), fold(v.right)
                if a[0] and b[0] and isinstance(a[1], str) and isinstance(b[1], str):
                    return True, a[1] + b[1]
            return False, None
        for p_, v in zip(params, call.args):
            bound.add(p_)
            okc, cv = fold(v)
            if okc:
                out[p_] = cv
        for kw in call.keywords:
            if kw.arg:
                bound.add(kw.arg)
                okc, cv = fold(kw.value)
                if okc:
                    out[kw.arg] = cv
        for p_, d in zip(params[len(params) - len(a.defaults):], a.defaults):
            if p_ not in bound and isinstance(d, ast.Constant):
                out[p_] = d.value
        for p_, d in zip([x.arg for x in a.kwonlyargs], a.kw_defaults):
            if p_ not in bound and isinstance(d, ast.Constant):
                out[p_] = d.value
        return out

    def expand_c(self, s: Sink, depth: int = 0):
        """[(final sink, wrappers, guards, chain of sinks from s to the final one)]."""
        res = []
        for k in range(len(s.wrappers) - 1, -1, -1):
            w = s.wrappers[k]
            if w.startswith('.'):
                continue
            callee = self.resolve_func(s.fn, w)
            if callee is not None and callee.id not in self.sinks and depth <= 6 and not s.quote and callee.module.startswith('pydbml.renderer') \
                    and k == len(s.wrappers) - 1:
                # the value is handed to a renderer helper whose text this engine could not read: the context is unknown, not "bare"
                import copy as _copy
                unknown = _copy.copy(s)
                unknown.quote = '?'
                return [(unknown, list(s.wrappers), list(s.guards), [s])]
            if callee is None or callee.id not in self.sinks or depth > 6:
                continue
            params = [a.arg for a in callee.node.args.args]
            if not params:
                continue
            pi = s.arg_index if k == len(s.wrappers) - 1 and s.arg_index < len(params) else 0
            inner = self.param_contexts(callee, params[pi], depth + 1)
            if inner:
                # constant arguments at this call site decide the callee's tests on those parameters (`block=True`): infeasible callee contexts are dropped
                consts = self._const_args(s, w, callee)
                if consts and any(si.quote == '?' for si in inner):
                    # the callee's text depends on pieces this call site passes as constants (an opening quote, a keyword): read it specialised to them
                    sconsts = {k_: v_ for k_, v_ in consts.items() if isinstance(v_, str)}
                    if sconsts:
                        try:
                            spec = [x for x in path_sinks(callee, sconsts) if x.source == ('param', params[pi])]
                        except RecursionError:          # pragma: no cover
                            spec = []
                        if spec and not any(x.quote == '?' for x in spec):
                            inner = spec
                if consts:
                    inner = [si for si in inner if not any(g[0] in consts and bool(consts[g[0]]) != g[1] for g in si.guards)]
                # a test the caller has already decided on the value it passes (`if '\\n' not in text: return helper(text)`) decides the same test on the
                # callee's parameter: callee contexts under the opposite outcome are infeasible at this call site
                amap = self._arg_map(s, w, callee)
                if amap and s.guards:
                    import re as _re

                    def in_caller_terms(gtxt: str) -> str:
                        for pn, av in amap.items():
                            gtxt = _re.sub(r'(?<![\w.])' + _re.escape(pn) + r'(?![\w])', av, gtxt)
                        return gtxt
                    def canon(gtxt: str, pol: bool):
                        """(positive form of the test, polarity): `a not in b` / `a != b` / `a is not b` / `not a` are the negations of their positive forms"""
                        try:
                            e = ast.parse(gtxt, mode='eval').body
                        except SyntaxError:
                            return gtxt, pol
                        for _ in range(3):
                            if isinstance(e, ast.UnaryOp) and isinstance(e.op, ast.Not):
                                e, pol = e.operand, not pol
                            elif isinstance(e, ast.Compare) and len(e.ops) == 1 and isinstance(e.ops[0], (ast.NotIn, ast.NotEq, ast.IsNot)):
                                pos = {ast.NotIn: ast.In, ast.NotEq: ast.Eq, ast.IsNot: ast.Is}[type(e.ops[0])]()
                                e, pol = ast.Compare(left=e.left, ops=[pos], comparators=e.comparators), not pol
                            else:
                                break
                        return norm(e), pol
                    decided = dict(canon(g[0], g[1]) for g in s.guards)

                    def contradicted(g) -> bool:
                        t, pol = canon(in_caller_terms(g[0]), g[1])
                        return t in decided and decided[t] != pol
                    inner = [si for si in inner if not any(contradicted(g) for g in si.guards)]
                inner_helpers = [w_ for w_ in s.wrappers[:k] if not w_.startswith('.') and (lambda c_: c_ is not None and c_.id in self.sinks)(self.resolve_func(s.fn, w_))]
                for si in inner:
                    for fin, ws, gs, ch in self.expand_c(si, depth + 1):
                        if self.innermost_context and not fin.quote and inner_helpers and depth <= 3:
                            # outer(helper(value)): the outer helper only places the text helper() has made (no quotes of its own around it), so the value's
                            # context is the one helper() writes it in
                            import copy as _copy
                            s2 = _copy.copy(s)
                            s2.wrappers = list(s.wrappers[:k])
                            s2.arg_index = 0
                            s2.guards = []
                            sub = self.expand_c(s2, depth + 1)
                            if any(f2 is not s2 for f2, _, _, _ in sub):
                                for f2, ws2, gs2, ch2 in sub:
                                    res.append((f2, ws2 + ws, list(s.guards) + gs + gs2, [s] + ch + ch2[1:]))
                                continue
                        res.append((fin, s.wrappers[:k] + ws, list(s.guards) + gs, [s] + ch))
                return res
        return [(s, list(s.wrappers), list(s.guards), [s])]


def origin_finals(ti: 'TemplateIndex', fi: FuncInfo):
    """All final contexts of the sinks of fi (helpers it passes its values to are descended into):
    [(origin sink, final sink, wrappers, guards, value path in terms of fi's own names, chain of sinks)]."""
    out = []
    for s in ti.sinks.get(fi.id, []):
        for f, w, g, ch in ti.expand_c(s):
            # value path: follow the chain, re-rooting attribute paths of helper parameters at the caller's value
            path = s.source[1].split(' in ')[0] if s.source[0] == 'loop' else s.source[1]
            for nxt in ch[1:]:
                if nxt.source[0] == 'attr' and '.' in nxt.source[1]:
                    path = f'{path}.{nxt.source[1].split(".", 1)[1]}'
            out.append((s, f, w, g, path, ch))
    return out
