"""Semantics-preserving canonicalisation of the parsed source, applied once when a module is loaded, so
that rules see ONE spelling of equivalent code:

  * `if not T: A else: B`  ->  `if T: B else: A`   (also for conditional expressions);
  * `not (a == b)` -> `a != b`, `not (a in b)` -> `a not in b`, `not (a is b)` -> `a is not b`, double negation removed;
  * `x == A or x == B or ...` -> `x in (A, B, ...)`, `x != A and x != B` -> `x not in (A, B)`;
  * in `==` / `!=` a constant or ALL_CAPS name on the left moves to the right;
  * `a = a + b` -> `a += b` for plain names.
Positions (lineno/col_offset) are kept from the original nodes."""
from __future__ import annotations

import ast
from typing import List, Optional

NEG = {ast.Eq: ast.NotEq, ast.NotEq: ast.Eq, ast.In: ast.NotIn, ast.NotIn: ast.In, ast.Is: ast.IsNot, ast.IsNot: ast.Is,
       ast.Lt: ast.GtE, ast.GtE: ast.Lt, ast.Gt: ast.LtE, ast.LtE: ast.Gt}


def _src(n: ast.AST) -> str:
    return ast.unparse(n)


def _is_const_like(n: ast.AST) -> bool:
    if isinstance(n, ast.Constant):
        return True
    if isinstance(n, ast.Name) and n.id.isupper():
        return True
    if isinstance(n, ast.Attribute) and n.attr.isupper() and isinstance(n.value, ast.Name):
        return True          # a constant read through its module: constants.MANY_TO_ONE
    if isinstance(n, (ast.Tuple, ast.List)) and all(_is_const_like(e) for e in n.elts):
        return True
    return False


def negate(e: ast.AST) -> ast.AST:
    if isinstance(e, ast.UnaryOp) and isinstance(e.op, ast.Not):
        return e.operand
    if isinstance(e, ast.Compare) and len(e.ops) == 1 and type(e.ops[0]) in NEG and not isinstance(e.ops[0], (ast.Lt, ast.GtE, ast.Gt, ast.LtE)):
        n = ast.Compare(left=e.left, ops=[NEG[type(e.ops[0])]()], comparators=e.comparators)
        return ast.copy_location(n, e)
    return ast.copy_location(ast.UnaryOp(op=ast.Not(), operand=e), e)


class Canon(ast.NodeTransformer):
    def visit_UnaryOp(self, node: ast.UnaryOp):
        self.generic_visit(node)
        if isinstance(node.op, ast.Not):
            o = node.operand
            if isinstance(o, ast.UnaryOp) and isinstance(o.op, ast.Not):
                return o.operand
            if isinstance(o, ast.Compare) and len(o.ops) == 1 and isinstance(o.ops[0], (ast.Eq, ast.NotEq, ast.In, ast.NotIn, ast.Is, ast.IsNot)):
                return negate(o)
        return node

    def visit_Compare(self, node: ast.Compare):
        self.generic_visit(node)
        # (A if C else B) == M   ->   (A == M) if C else (B == M)       (M a plain name / path / literal; an arm that is the literal None compares unequal to an object)
        if len(node.ops) == 1 and isinstance(node.ops[0], (ast.Eq, ast.NotEq, ast.Is, ast.IsNot)) and isinstance(node.left, ast.IfExp) \
                and isinstance(node.comparators[0], (ast.Name, ast.Constant, ast.Attribute)) \
                and not (isinstance(node.left.body, ast.Constant) and isinstance(node.left.orelse, ast.Constant) and isinstance(node.comparators[0], ast.Constant)):
            import copy
            op, m_ = node.ops[0], node.comparators[0]

            def arm(a):
                if isinstance(a, ast.Constant) and a.value is None and not isinstance(m_, ast.Constant) and isinstance(op, (ast.Eq, ast.Is, ast.NotEq, ast.IsNot)):
                    return ast.copy_location(ast.Constant(value=isinstance(op, (ast.NotEq, ast.IsNot))), a)
                return self.visit_Compare(ast.copy_location(ast.Compare(left=a, ops=[copy.deepcopy(op)], comparators=[copy.deepcopy(m_)]), node))
            out = ast.copy_location(ast.IfExp(test=node.left.test, body=arm(node.left.body), orelse=arm(node.left.orelse)), node)
            ast.fix_missing_locations(out)
            return out
        if len(node.ops) == 1 and isinstance(node.ops[0], (ast.Eq, ast.NotEq)):
            l, r = node.left, node.comparators[0]
            if _is_const_like(l) and not _is_const_like(r):
                node.left, node.comparators = r, [l]
            # (A if c else B) == K with literal A, B, K: the comparison only re-reads c
            l, r = node.left, node.comparators[0]
            if isinstance(l, ast.IfExp) and isinstance(l.body, ast.Constant) and isinstance(l.orelse, ast.Constant) and isinstance(r, ast.Constant):
                eq = isinstance(node.ops[0], ast.Eq)
                ta, tb = (l.body.value == r.value) == eq, (l.orelse.value == r.value) == eq
                if ta and tb:
                    return ast.copy_location(ast.Constant(value=True), node)
                if not ta and not tb:
                    return ast.copy_location(ast.Constant(value=False), node)
                if ta:
                    return l.test
                return self.visit(ast.copy_location(ast.UnaryOp(op=ast.Not(), operand=l.test), node))
        return node

    def visit_BoolOp(self, node: ast.BoolOp):
        self.generic_visit(node)
        want = ast.Eq if isinstance(node.op, ast.Or) else ast.NotEq
        vals = node.values
        if len(vals) >= 2 and all(isinstance(v, ast.Compare) and len(v.ops) == 1 and isinstance(v.ops[0], want) for v in vals):
            lefts = {_src(v.left) for v in vals}
            if len(lefts) == 1 and all(_is_const_like(v.comparators[0]) for v in vals):
                tup = ast.Tuple(elts=[v.comparators[0] for v in vals], ctx=ast.Load())
                ast.copy_location(tup, vals[0])
                n = ast.Compare(left=vals[0].left, ops=[ast.In() if want is ast.Eq else ast.NotIn()], comparators=[tup])
                return ast.copy_location(n, node)
        # isinstance(x, A) or isinstance(x, B)  ->  isinstance(x, (A, B))
        if isinstance(node.op, ast.Or) and len(vals) >= 2 and all(isinstance(v, ast.Call) and isinstance(v.func, ast.Name) and v.func.id == 'isinstance' and len(v.args) == 2
                                                                  and not v.keywords for v in vals) and len({_src(v.args[0]) for v in vals}) == 1:
            classes: List[ast.AST] = []
            for v in vals:
                classes.extend(v.args[1].elts if isinstance(v.args[1], (ast.Tuple, ast.List)) else [v.args[1]])
            tup = ast.copy_location(ast.Tuple(elts=classes, ctx=ast.Load()), vals[0])
            n = ast.Call(func=vals[0].func, args=[vals[0].args[0], tup], keywords=[])
            return ast.copy_location(n, node)
        return node

    def _as_test(self, t: ast.AST) -> ast.AST:
        """An expression that is only used for its truth value: `bool(X)` -> X; `True if C else D` -> `C or D`; `D if C else False` -> `C and D`."""
        for _ in range(4):
            if isinstance(t, ast.Call) and isinstance(t.func, ast.Name) and t.func.id == 'bool' and len(t.args) == 1 and not t.keywords:
                t = t.args[0]
            elif isinstance(t, ast.IfExp) and isinstance(t.body, ast.Constant) and t.body.value is True:
                t = self.visit_BoolOp(ast.copy_location(ast.BoolOp(op=ast.Or(), values=[t.test, self._as_test(t.orelse)]), t))
            elif isinstance(t, ast.IfExp) and isinstance(t.orelse, ast.Constant) and t.orelse.value is False:
                t = self.visit_BoolOp(ast.copy_location(ast.BoolOp(op=ast.And(), values=[t.test, self._as_test(t.body)]), t))
            elif isinstance(t, ast.IfExp) and not any(isinstance(x, (ast.Call, ast.NamedExpr)) and not (
                    isinstance(x, ast.Call) and isinstance(x.func, ast.Name) and x.func.id in ('isinstance', 'len')) for x in ast.walk(t.test)):
                # A if C else B, as a truth value  ->  (C and A) or (not C and B)        (C call-free)
                import copy
                t = self.visit_BoolOp(ast.copy_location(ast.BoolOp(op=ast.Or(), values=[
                    ast.BoolOp(op=ast.And(), values=[copy.deepcopy(t.test), self._as_test(t.body)]),
                    ast.BoolOp(op=ast.And(), values=[self.visit(ast.UnaryOp(op=ast.Not(), operand=copy.deepcopy(t.test))), self._as_test(t.orelse)])]), t))
                ast.fix_missing_locations(t)
                break
            elif isinstance(t, ast.BoolOp):
                vals = [self._as_test(v) for v in t.values]
                flat = []
                for v in vals:          # (a or b) or c -> a or b or c
                    flat.extend(v.values if isinstance(v, ast.BoolOp) and type(v.op) is type(t.op) else [v])
                t.values = flat
                break
            elif isinstance(t, ast.UnaryOp) and isinstance(t.op, ast.Not):
                t.operand = self._as_test(t.operand)
                break
            else:
                break
        return t

    def visit_comprehension(self, node: ast.comprehension):
        self.generic_visit(node)
        node.ifs = [self._as_test(c) for c in node.ifs]
        return node

    def visit_While(self, node: ast.While):
        self.generic_visit(node)
        node.test = self._as_test(node.test)
        return node

    def visit_If(self, node: ast.If):
        self.generic_visit(node)
        node.test = self._as_test(node.test)
        if node.orelse and isinstance(node.test, ast.UnaryOp) and isinstance(node.test.op, ast.Not) \
                and not (len(node.orelse) == 1 and isinstance(node.orelse[0], ast.If)):
            node.test = node.test.operand
            node.body, node.orelse = node.orelse, node.body
        elif node.orelse and isinstance(node.test, ast.Compare) and len(node.test.ops) == 1 and isinstance(node.test.ops[0], (ast.NotEq, ast.NotIn, ast.IsNot)) \
                and not (len(node.orelse) == 1 and isinstance(node.orelse[0], ast.If)):
            node.test = negate(node.test)
            node.body, node.orelse = node.orelse, node.body
        # if A: (if B: X)   ->   if A and B: X        (neither has an else)
        if not node.orelse and len(node.body) == 1 and isinstance(node.body[0], ast.If) and not node.body[0].orelse:
            inner = node.body[0]
            vals = (node.test.values if isinstance(node.test, ast.BoolOp) and isinstance(node.test.op, ast.And) else [node.test]) + \
                (inner.test.values if isinstance(inner.test, ast.BoolOp) and isinstance(inner.test.op, ast.And) else [inner.test])
            node.test = ast.copy_location(ast.BoolOp(op=ast.And(), values=list(vals)), node.test)
            node.body = inner.body
        return node

    def visit_JoinedStr(self, node: ast.JoinedStr):
        self.generic_visit(node)
        # f'..{"CONST"}..' -> the constant is part of the literal text; adjacent literals are merged
        vals: List[ast.AST] = []

        def flat(e):
            if isinstance(e, ast.BinOp) and isinstance(e.op, ast.Add):
                return flat(e.left) + flat(e.right)
            return [e]
        src: List[ast.AST] = []
        for v in node.values:
            # {'lit' + x + 'lit'}: a concatenation with a string literal in it is text - its parts stand in the f-string directly
            if isinstance(v, ast.FormattedValue) and v.conversion == -1 and v.format_spec is None and isinstance(v.value, ast.BinOp):
                parts = flat(v.value)
                if any(isinstance(p_, ast.Constant) and isinstance(p_.value, str) for p_ in parts) or any(isinstance(p_, ast.JoinedStr) for p_ in parts):
                    for p_ in parts:
                        if isinstance(p_, ast.JoinedStr):
                            src.extend(p_.values)
                        elif isinstance(p_, ast.Constant) and isinstance(p_.value, str):
                            src.append(p_)
                        else:
                            src.append(ast.copy_location(ast.FormattedValue(value=p_, conversion=-1, format_spec=None), v))
                    continue
            # {f'...'}: a nested f-string is part of the text
            if isinstance(v, ast.FormattedValue) and v.conversion == -1 and v.format_spec is None and isinstance(v.value, ast.JoinedStr):
                src.extend(v.value.values)
                continue
            src.append(v)
        for v in src:
            if isinstance(v, ast.FormattedValue) and isinstance(v.value, ast.Constant) and isinstance(v.value.value, str) and v.conversion == -1 and v.format_spec is None:
                v = ast.copy_location(ast.Constant(value=v.value.value), v)
            elif isinstance(v, ast.FormattedValue) and isinstance(v.value, ast.Constant) and type(v.value.value) in (int, bool) and v.conversion == -1 and v.format_spec is None:
                v = ast.copy_location(ast.Constant(value=str(v.value.value)), v)
            if vals and isinstance(v, ast.Constant) and isinstance(vals[-1], ast.Constant) and isinstance(v.value, str) and isinstance(vals[-1].value, str):
                vals[-1] = ast.copy_location(ast.Constant(value=vals[-1].value + v.value), vals[-1])
            else:
                vals.append(v)
        node.values = vals
        if len(vals) == 1 and isinstance(vals[0], ast.Constant) and isinstance(vals[0].value, str):
            return ast.copy_location(ast.Constant(value=vals[0].value), node)       # nothing left to format
        if not vals:
            return ast.copy_location(ast.Constant(value=''), node)
        return node

    def visit_IfExp(self, node: ast.IfExp):
        self.generic_visit(node)
        node.test = self._as_test(node.test)
        if isinstance(node.test, ast.UnaryOp) and isinstance(node.test.op, ast.Not):
            node.test = node.test.operand
            node.body, node.orelse = node.orelse, node.body
        elif isinstance(node.test, ast.Compare) and len(node.test.ops) == 1 and isinstance(node.test.ops[0], ast.NotIn):
            node.test = negate(node.test)
            node.body, node.orelse = node.orelse, node.body
        # D[K] if K in D else F   ->   D.get(K, F)
        t = node.test
        if isinstance(t, ast.Compare) and len(t.ops) == 1 and isinstance(t.ops[0], ast.In) and isinstance(node.body, ast.Subscript) \
                and _src(node.body.value) == _src(t.comparators[0]) and _src(node.body.slice) == _src(t.left):
            call = ast.Call(func=ast.Attribute(value=node.body.value, attr='get', ctx=ast.Load()), args=[node.body.slice, node.orelse], keywords=[])
            for x in ast.walk(call):
                if not hasattr(x, 'lineno'):
                    ast.copy_location(x, node)
            return ast.copy_location(call, node)
        return node

    def visit_BinOp(self, node: ast.BinOp):
        self.generic_visit(node)
        # 'lit' + 'lit' -> one literal; x + '' -> x (x is then necessarily text); (x + 'a') + 'b' -> x + 'ab'
        if isinstance(node.op, ast.Add):
            l, r = node.left, node.right
            cs = lambda e: isinstance(e, ast.Constant) and isinstance(e.value, str)
            if cs(l) and cs(r):
                return ast.copy_location(ast.Constant(value=l.value + r.value), node)
            if cs(r) and r.value == '' and isinstance(l, (ast.BinOp, ast.JoinedStr, ast.Call)):
                return l
            if cs(l) and l.value == '' and isinstance(r, (ast.BinOp, ast.JoinedStr, ast.Call)):
                return r
            if cs(r) and isinstance(l, ast.BinOp) and isinstance(l.op, ast.Add) and cs(l.right):
                node.left, node.right = l.left, ast.copy_location(ast.Constant(value=l.right.value + r.value), r)
        return node

    def visit_Expr(self, node: ast.Expr):
        self.generic_visit(node)
        # setattr(o, 'name', v)  ->  o.name = v
        c = node.value
        if isinstance(c, ast.Call) and isinstance(c.func, ast.Name) and c.func.id == 'setattr' and len(c.args) == 3 and not c.keywords \
                and isinstance(c.args[1], ast.Constant) and isinstance(c.args[1].value, str) and c.args[1].value.isidentifier():
            tgt = ast.Attribute(value=c.args[0], attr=c.args[1].value, ctx=ast.Store())
            return ast.copy_location(ast.Assign(targets=[ast.copy_location(tgt, c)], value=c.args[2]), node)
        return node

    def visit_Assign(self, node: ast.Assign):
        self.generic_visit(node)
        # a, b = (X, Y) if C else (X2, Y2)   ->   a = X if C else X2 ; b = Y if C else Y2        (C call-free; the right-hand sides do not read a or b)
        # a, b = X, Y                        ->   a = X ; b = Y                                   (same condition)
        if len(node.targets) == 1 and isinstance(node.targets[0], ast.Tuple) and all(isinstance(t, ast.Name) for t in node.targets[0].elts):
            import copy
            names = [t.id for t in node.targets[0].elts]
            v = node.value
            arms = None
            if isinstance(v, ast.Tuple) and len(v.elts) == len(names) and not any(isinstance(e, ast.Starred) for e in v.elts):
                arms = [list(v.elts)]
            elif isinstance(v, ast.IfExp) and all(isinstance(a, ast.Tuple) and len(a.elts) == len(names) and not any(isinstance(e, ast.Starred) for e in a.elts)
                                                  for a in (v.body, v.orelse)) and not any(isinstance(x, (ast.Call, ast.NamedExpr)) and not (
                                                      isinstance(x, ast.Call) and isinstance(x.func, ast.Name) and x.func.id in ('isinstance', 'len')) for x in ast.walk(v.test)):
                arms = [list(v.body.elts), list(v.orelse.elts)]
            reads = {x.id for x in ast.walk(v) if isinstance(x, ast.Name)}
            if arms is not None and not (reads & set(names)) and len(set(names)) == len(names):
                out = []
                for i_, nm in enumerate(names):
                    val = arms[0][i_] if len(arms) == 1 else ast.IfExp(test=copy.deepcopy(v.test), body=arms[0][i_], orelse=arms[1][i_])
                    a_ = ast.Assign(targets=[ast.Name(id=nm, ctx=ast.Store())], value=val)
                    ast.copy_location(a_, node)
                    ast.fix_missing_locations(a_)
                    out.append(a_)
                return out
        if len(node.targets) == 1 and isinstance(node.targets[0], ast.Name) and isinstance(node.value, ast.BinOp) and isinstance(node.value.op, ast.Add) \
                and isinstance(node.value.left, ast.Name) and node.value.left.id == node.targets[0].id:
            n = ast.AugAssign(target=ast.Name(id=node.targets[0].id, ctx=ast.Store()), op=ast.Add(), value=node.value.right)
            ast.copy_location(n.target, node.targets[0])
            return ast.copy_location(n, node)
        return node




# ----------------------------------------------------------------------------------------------
# local aliases of attribute paths
# ----------------------------------------------------------------------------------------------

def _attr_path(e: ast.AST) -> Optional[str]:
    parts = []
    while isinstance(e, ast.Attribute):
        parts.append(e.attr)
        e = e.value
    if isinstance(e, ast.Name) and parts:
        return '.'.join([e.id] + parts[::-1])
    return None


class _PathSubst(ast.NodeTransformer):
    def __init__(self, name: str, path: ast.AST):
        self.name, self.path = name, path

    def visit_Name(self, node):
        if node.id == self.name and isinstance(node.ctx, ast.Load):
            import copy
            return ast.copy_location(copy.deepcopy(self.path), node)
        return node


def alias_paths(tree: ast.AST, computed=frozenset()) -> ast.AST:
    """`v = a.b.c` (v assigned once, at the top level of the function body, a.b.c not re-bound in the function) -> later reads of v become a.b.c;
    `v = a.b = E` -> `a.b = E` with v read as a.b.  The alias and the path name the same object, so rules see one spelling."""
    owner = {}
    for c in ast.walk(tree):
        if isinstance(c, ast.ClassDef):
            for n in c.body:
                if isinstance(n, ast.FunctionDef):
                    owner[id(n)] = c.name
    for fn in [n for n in ast.walk(tree) if isinstance(n, ast.FunctionDef)]:
        params = {a.arg for a in fn.args.args + fn.args.kwonlyargs + fn.args.posonlyargs}
        self_name = fn.args.args[0].arg if id(fn) in owner and fn.args.args and not any(
            isinstance(d, ast.Name) and d.id == 'staticmethod' for d in fn.decorator_list) else None
        own_computed = computed.of_class(owner[id(fn)]) if self_name and hasattr(computed, 'of_class') else None

        def is_computed(root, attrs):
            for k, a in enumerate(attrs):
                if k == 0 and root == self_name and own_computed is not None:
                    if a in own_computed:
                        return True
                elif a in computed:
                    return True
            return False
        if fn.args.vararg:
            params.add(fn.args.vararg.arg)
        if fn.args.kwarg:
            params.add(fn.args.kwarg.arg)
        changed = True
        rounds = 0
        while changed and rounds < 6:
            changed = False
            rounds += 1
            stores = {}
            for x in ast.walk(fn):
                if isinstance(x, ast.Name) and isinstance(x.ctx, (ast.Store, ast.Del)):
                    stores[x.id] = stores.get(x.id, 0) + 1
            attr_stores = {x.attr for x in ast.walk(fn) if isinstance(x, ast.Attribute) and isinstance(x.ctx, (ast.Store, ast.Del))}
            for i, st in enumerate(fn.body):
                if not isinstance(st, ast.Assign):
                    continue
                names = [t for t in st.targets if isinstance(t, ast.Name)]
                paths = [t for t in st.targets if isinstance(t, ast.Attribute) and _attr_path(t)]
                v = path = None
                if len(st.targets) == 1 and names and _attr_path(st.value):
                    v, path = names[0].id, st.value
                    root = _attr_path(path).split('.')[0]
                    attrs = _attr_path(path).split('.')[1:]
                    if is_computed(root, attrs):
                        continue
                    if stores.get(root, 0) > (0 if root in params else 1) or any(a in attr_stores for a in attrs):
                        continue
                    drop_stmt = True
                elif len(st.targets) == 2 and len(names) == 1 and len(paths) == 1:
                    v, path = names[0].id, paths[0]
                    attrs = _attr_path(path).split('.')[1:]
                    n_same = sum(1 for x in ast.walk(fn) if isinstance(x, ast.Attribute) and isinstance(x.ctx, ast.Store) and x.attr == attrs[-1])
                    if n_same != 1:
                        continue
                    drop_stmt = False
                elif len(st.targets) == 1 and names and isinstance(st.value, (ast.Tuple, ast.List)) and st.value.elts and stores.get(names[0].id, 0) == 1 \
                        and names[0].id not in params and all(
                            (_attr_path(x.value if isinstance(x, ast.Starred) else x) is not None) or isinstance(x.value if isinstance(x, ast.Starred) else x, (ast.Name, ast.Constant))
                            for x in st.value.elts):
                    # v = (*a.b, *a.c)  read exactly once afterwards: the display is read where v is read
                    v = names[0].id
                    nloads = sum(1 for s_ in fn.body[i + 1:] for x in ast.walk(s_) if isinstance(x, ast.Name) and x.id == v and isinstance(x.ctx, ast.Load))
                    total = sum(1 for x in ast.walk(fn) if isinstance(x, ast.Name) and x.id == v and isinstance(x.ctx, ast.Load))
                    roots = {r_ for x in st.value.elts for r_ in [(_attr_path(x.value if isinstance(x, ast.Starred) else x) or '').split('.')[0]] if r_}
                    if nloads != 1 or total != 1 or any(stores.get(r_, 0) > (0 if r_ in params else 1) for r_ in roots):
                        continue
                    import copy
                    sub = _PathSubst(v, st.value)
                    fn.body[i + 1:] = [sub.visit(s_) for s_ in fn.body[i + 1:]]
                    del fn.body[i]
                    changed = True
                    break
                elif len(st.targets) == 1 and len(paths) == 1 and isinstance(st.value, ast.Name) and st.value.id not in params and stores.get(st.value.id, 0) == 1:
                    # a.b = v   (v a single-assignment local): from here on v and a.b name the same object
                    v, path = st.value.id, paths[0]
                    attrs = _attr_path(path).split('.')[1:]
                    n_same = sum(1 for x in ast.walk(fn) if isinstance(x, ast.Attribute) and isinstance(x.ctx, ast.Store) and x.attr == attrs[-1])
                    later = any(isinstance(x, ast.Name) and x.id == v and isinstance(x.ctx, ast.Load) for s_ in fn.body[i + 1:] for x in ast.walk(s_))
                    if n_same != 1 or not later:
                        continue
                    import copy
                    load_path = copy.deepcopy(path)
                    for x in ast.walk(load_path):
                        if hasattr(x, 'ctx'):
                            x.ctx = ast.Load()
                    sub = _PathSubst(v, load_path)
                    fn.body[i + 1:] = [sub.visit(s_) for s_ in fn.body[i + 1:]]
                    # `v = E` directly before and v read nowhere else: a.b = E
                    prev = fn.body[i - 1] if i > 0 else None
                    reads = sum(1 for x in ast.walk(fn) if isinstance(x, ast.Name) and x.id == v and isinstance(x.ctx, ast.Load))
                    if reads == 1 and isinstance(prev, ast.Assign) and len(prev.targets) == 1 and isinstance(prev.targets[0], ast.Name) and prev.targets[0].id == v:
                        st.value = prev.value
                        ast.copy_location(st, prev)
                        del fn.body[i - 1]
                    changed = True
                    break
                else:
                    continue
                if v in params or stores.get(v, 0) != 1:
                    continue
                # every read of v is in a later statement of the function body
                earlier = any(isinstance(x, ast.Name) and x.id == v and isinstance(x.ctx, ast.Load) for s_ in fn.body[:i + 1] for x in ast.walk(s_))
                if earlier:
                    continue
                import copy
                load_path = copy.deepcopy(path)
                for x in ast.walk(load_path):
                    if hasattr(x, 'ctx'):
                        x.ctx = ast.Load()
                sub = _PathSubst(v, load_path)
                fn.body[i + 1:] = [sub.visit(s_) for s_ in fn.body[i + 1:]]
                if drop_stmt:
                    del fn.body[i]
                else:
                    st.targets = [t for t in st.targets if t is not names[0]]
                changed = True
                break
    return tree


# ----------------------------------------------------------------------------------------------
# statement-level desugaring (needs the module's literal tables)
# ----------------------------------------------------------------------------------------------

def _pure_cell(c: ast.AST) -> bool:
    if isinstance(c, (ast.Constant, ast.Name, ast.Lambda)):
        return True
    if isinstance(c, ast.Call) and not c.keywords and c.args and all(isinstance(a, ast.Constant) for a in c.args) \
            and (getattr(c.func, 'attr', None) or getattr(c.func, 'id', '')) in ('attrgetter', 'itemgetter', 'methodcaller'):
        return True          # operator.attrgetter('x') and friends: a pure accessor, as good as a lambda
    if isinstance(c, ast.Attribute):
        return _pure_cell(c.value)
    if isinstance(c, (ast.Tuple, ast.List, ast.Set)):
        return len(c.elts) <= 12 and all(isinstance(e, (ast.Constant, ast.Name, ast.Attribute)) and _pure_cell(e) for e in c.elts)
    if isinstance(c, ast.BoolOp):
        return all(_pure_cell(v) for v in c.values)
    if isinstance(c, ast.UnaryOp) and isinstance(c.op, ast.Not):
        return _pure_cell(c.operand)
    if isinstance(c, ast.Compare):
        return _pure_cell(c.left) and all(_pure_cell(x) for x in c.comparators)
    return False


def _literal_table(v: ast.AST) -> Optional[List[List[ast.AST]]]:
    """Rows of a literal tuple/list of equally long tuples whose cells are constants, names, attributes or lambdas."""
    if not isinstance(v, (ast.Tuple, ast.List)) or not v.elts or len(v.elts) > 24:
        return None
    rows: List[List[ast.AST]] = []
    for e in v.elts:
        if not isinstance(e, (ast.Tuple, ast.List)) or not e.elts:
            return None
        if not all(_pure_cell(c) for c in e.elts):
            return None
        rows.append(list(e.elts))
    if len({len(r) for r in rows}) != 1:
        return None
    return rows


def _dict_rows(d: ast.AST) -> Optional[List[List[ast.AST]]]:
    if isinstance(d, ast.Dict) and d.keys and len(d.keys) <= 24 and all(k is not None and _pure_cell(k) for k in d.keys) and all(_pure_cell(v) for v in d.values):
        return [[k, v] for k, v in zip(d.keys, d.values)]
    return None


def _fuse_nested(node):
    """(E(x) for x in (y for y in S if P(y)) if Q(x))  ->  (E(x) for x in S if P(x) if Q(x)): a pass over a pure filter is a filtered pass.  Likewise over a
    list comprehension or a list()/tuple() of the filter (nothing else reads the intermediate sequence)."""
    import copy
    if len(node.generators) != 1 or not isinstance(node.generators[0].target, ast.Name):
        return node
    g = node.generators[0]
    for _ in range(3):
        inner = g.iter
        if isinstance(inner, ast.Call) and isinstance(inner.func, ast.Name) and inner.func.id in ('list', 'tuple', 'iter') and len(inner.args) == 1 and not inner.keywords:
            inner = inner.args[0]
        if not isinstance(inner, (ast.GeneratorExp, ast.ListComp)) or len(inner.generators) != 1 or not isinstance(inner.generators[0].target, ast.Name):
            break
        ig = inner.generators[0]
        if isinstance(inner.elt, ast.Name) and inner.elt.id == ig.target.id:
            ren = _Subst({ig.target.id: ast.Name(id=g.target.id, ctx=ast.Load())})
            g.ifs = [ren.visit(copy.deepcopy(c)) for c in ig.ifs] + g.ifs
            g.iter = ig.iter
            continue
        # (E(x) for x in (y.a.b for y in S if P(y)))  ->  (E(y.a.b) for y in S if P(y)): the inner element is a plain attribute path of the inner variable
        if _attr_path(inner.elt) and _attr_path(inner.elt).split('.')[0] == ig.target.id and isinstance(inner, ast.GeneratorExp) \
                and not any(isinstance(x, ast.Name) and x.id == ig.target.id for part in [node.elt] + g.ifs for x in ast.walk(part)):
            sub = _Subst({g.target.id: inner.elt})
            if isinstance(node, ast.DictComp):
                break
            node.elt = sub.visit(node.elt)
            g.ifs = list(ig.ifs) + [sub.visit(c) for c in g.ifs]
            g.target = ig.target
            g.iter = ig.iter
            continue
        break
    return node


class _Subst(ast.NodeTransformer):
    def __init__(self, mapping):
        self.m = mapping

    def visit_GeneratorExp(self, node):
        self.generic_visit(node)
        return _fuse_nested(node)

    def visit_ListComp(self, node):
        self.generic_visit(node)
        return _fuse_nested(node)

    def visit_Name(self, node):
        if isinstance(node.ctx, ast.Load) and node.id in self.m:
            import copy
            return ast.copy_location(copy.deepcopy(self.m[node.id]), node)
        return node

    def visit_Call(self, node):
        self.generic_visit(node)
        # (lambda x: E)(a)  ->  E[x := a]   for single-expression lambdas substituted from a table cell
        if isinstance(node.func, ast.Lambda) and not node.keywords and len(node.args) == len(node.func.args.args):
            import copy
            m = {p.arg: a for p, a in zip(node.func.args.args, node.args)}
            body = _Subst(m).visit(copy.deepcopy(node.func.body))
            return ast.copy_location(body, node)
        # getattr(x, 'name') -> x.name
        if isinstance(node.func, ast.Name) and node.func.id == 'getattr' and len(node.args) == 2 and isinstance(node.args[1], ast.Constant) \
                and isinstance(node.args[1].value, str) and node.args[1].value.isidentifier():
            return ast.copy_location(ast.Attribute(value=node.args[0], attr=node.args[1].value, ctx=ast.Load()), node)
        import copy
        fname = node.func.attr if isinstance(node.func, ast.Attribute) else (node.func.id if isinstance(node.func, ast.Name) else '')
        # attrgetter('a')(x) -> x.a ; itemgetter(0)(x) -> x[0]
        if isinstance(node.func, ast.Call) and not node.keywords and len(node.args) == 1:
            inner = node.func
            iname = inner.func.attr if isinstance(inner.func, ast.Attribute) else (inner.func.id if isinstance(inner.func, ast.Name) else '')
            if iname == 'attrgetter' and len(inner.args) == 1 and isinstance(inner.args[0], ast.Constant) and isinstance(inner.args[0].value, str) \
                    and all(p_.isidentifier() for p_ in inner.args[0].value.split('.')):
                out: ast.AST = node.args[0]
                for p_ in inner.args[0].value.split('.'):
                    out = ast.Attribute(value=out, attr=p_, ctx=ast.Load())
                return ast.copy_location(out, node)
            if iname == 'itemgetter' and len(inner.args) == 1 and isinstance(inner.args[0], ast.Constant):
                return ast.copy_location(ast.Subscript(value=node.args[0], slice=inner.args[0], ctx=ast.Load()), node)
            if iname == 'methodcaller' and len(inner.args) == 1 and isinstance(inner.args[0], ast.Constant) and isinstance(inner.args[0].value, str) \
                    and inner.args[0].value.isidentifier():
                return ast.copy_location(ast.Call(func=ast.Attribute(value=node.args[0], attr=inner.args[0].value, ctx=ast.Load()), args=[], keywords=[]), node)
        # str.strip(x) / str.upper(x) ...  ->  x.strip() / x.upper()      (a method of a builtin type called through the type)
        if isinstance(node.func, ast.Attribute) and isinstance(node.func.value, ast.Name) and node.func.value.id in ('str', 'list', 'dict', 'bytes') \
                and node.args and not isinstance(node.args[0], ast.Starred) and node.func.attr not in ('join', 'fromkeys', 'maketrans', 'fromhex'):
            return ast.copy_location(ast.Call(func=ast.Attribute(value=node.args[0], attr=node.func.attr, ctx=ast.Load()), args=node.args[1:], keywords=node.keywords), node)
        # partial(g, a, k=v)(x)  ->  g(a, x, k=v)
        if isinstance(node.func, ast.Call) and (getattr(node.func.func, 'attr', None) or getattr(node.func.func, 'id', '')) == 'partial' and node.func.args \
                and isinstance(node.func.args[0], (ast.Name, ast.Attribute)) and not any(isinstance(a, ast.Starred) for a in node.func.args):
            pc = node.func
            return ast.copy_location(ast.Call(func=pc.args[0], args=list(pc.args[1:]) + list(node.args), keywords=list(pc.keywords) + list(node.keywords)), node)
        # chain(A, B, c)  ->  (*A, *B, *c)      (one pass over each, in order)
        if fname == 'chain' and isinstance(node.func, (ast.Name, ast.Attribute)) and (isinstance(node.func, ast.Name) or ast.unparse(node.func) == 'itertools.chain') \
                and node.args and not node.keywords and not any(isinstance(a, ast.Starred) for a in node.args):
            tup = ast.Tuple(elts=[ast.Starred(value=a, ctx=ast.Load()) for a in node.args], ctx=ast.Load())
            for x in ast.walk(tup):
                if not hasattr(x, 'lineno'):
                    ast.copy_location(x, node)
            return ast.copy_location(tup, node)
        if fname == 'from_iterable' and isinstance(node.func, ast.Attribute) and ast.unparse(node.func.value) in ('chain', 'itertools.chain') and len(node.args) == 1 \
                and isinstance(node.args[0], (ast.Tuple, ast.List)) and not any(isinstance(a, ast.Starred) for a in node.args[0].elts):
            tup = ast.Tuple(elts=[ast.Starred(value=a, ctx=ast.Load()) for a in node.args[0].elts], ctx=ast.Load())
            for x in ast.walk(tup):
                if not hasattr(x, 'lineno'):
                    ast.copy_location(x, node)
            return ast.copy_location(tup, node)
        # list(<generator expression>)  ->  list comprehension
        if isinstance(node.func, ast.Name) and fname == 'list' and len(node.args) == 1 and not node.keywords and isinstance(node.args[0], ast.GeneratorExp):
            return ast.copy_location(ast.ListComp(elt=node.args[0].elt, generators=node.args[0].generators), node)
        # tuple(<display>) / list(<display>)  ->  the display
        if isinstance(node.func, ast.Name) and fname in ('tuple', 'list') and len(node.args) == 1 and not node.keywords and isinstance(node.args[0], (ast.Tuple, ast.List)):
            mk = ast.Tuple if fname == 'tuple' else ast.List
            return ast.copy_location(mk(elts=node.args[0].elts, ctx=ast.Load()), node)
        # map(f, xs) -> (f(x) for x in xs) ; filter(f, xs) -> (x for x in xs if f(x)) ; filter(None, xs) -> (x for x in xs if x)      [iterators either way]
        if isinstance(node.func, (ast.Name, ast.Attribute)) and fname in ('map', 'filter', 'filterfalse') and len(node.args) == 2 and not node.keywords \
                and not any(isinstance(a, ast.Starred) for a in node.args) and (isinstance(node.func, ast.Name) or ast.unparse(node.func) == 'itertools.filterfalse'):
            f, xs = node.args
            used = {x.id for x in ast.walk(node) if isinstance(x, ast.Name)}
            vn = next(n_ for n_ in [f'_{fname[0]}x'] + [f'_{fname[0]}x{k_}' for k_ in range(2, 9)] if n_ not in used)
            v = ast.Name(id=vn, ctx=ast.Load())

            def apply(fn):
                if isinstance(fn, ast.Call) and (getattr(fn.func, 'attr', None) or getattr(fn.func, 'id', '')) == 'partial' and fn.args \
                        and isinstance(fn.args[0], (ast.Name, ast.Attribute)) and not any(isinstance(a, ast.Starred) for a in fn.args):
                    return ast.Call(func=fn.args[0], args=list(fn.args[1:]) + [copy.deepcopy(v)], keywords=list(fn.keywords))
                if isinstance(fn, ast.Call) and (getattr(fn.func, 'attr', None) or getattr(fn.func, 'id', '')) == 'attrgetter' and len(fn.args) == 1 \
                        and isinstance(fn.args[0], ast.Constant) and isinstance(fn.args[0].value, str) and fn.args[0].value.isidentifier():
                    return ast.Attribute(value=copy.deepcopy(v), attr=fn.args[0].value, ctx=ast.Load())
                if isinstance(fn, ast.Lambda) and len(fn.args.args) == 1 and not fn.args.defaults:
                    return _Subst({fn.args.args[0].arg: v}).visit(copy.deepcopy(fn.body))
                if isinstance(fn, (ast.Name, ast.Attribute)):
                    return ast.Call(func=fn, args=[copy.deepcopy(v)], keywords=[])
                return None
            tgt = ast.Name(id=v.id, ctx=ast.Store())
            gen = None
            if fname == 'map':
                e = apply(f)
                if e is not None:
                    gen = ast.GeneratorExp(elt=e, generators=[ast.comprehension(target=tgt, iter=xs, ifs=[], is_async=0)])
            elif isinstance(f, ast.Constant) and f.value is None:
                cond = copy.deepcopy(v) if fname == 'filter' else ast.UnaryOp(op=ast.Not(), operand=copy.deepcopy(v))
                gen = ast.GeneratorExp(elt=copy.deepcopy(v), generators=[ast.comprehension(target=tgt, iter=xs, ifs=[cond], is_async=0)])
            else:
                e = apply(f)
                if e is not None and fname == 'filterfalse':
                    e = ast.UnaryOp(op=ast.Not(), operand=e)
                if e is not None:
                    gen = ast.GeneratorExp(elt=copy.deepcopy(v), generators=[ast.comprehension(target=tgt, iter=xs, ifs=[e], is_async=0)])
            if gen is not None:
                for x in ast.walk(gen):
                    if not hasattr(x, 'lineno'):
                        ast.copy_location(x, node)
                return ast.copy_location(gen, node)
        return node


def _is_lookup_with_default(test: ast.AST, value: ast.AST) -> bool:
    """`K in D` guarding `D[K]`."""
    return isinstance(test, ast.Compare) and len(test.ops) == 1 and isinstance(test.ops[0], ast.In) and isinstance(value, ast.Subscript) \
        and _src(value.value) == _src(test.comparators[0]) and _src(value.slice) == _src(test.left)


class _JoinOverDisplay(ast.NodeTransformer):
    """D9:  SEP.join(E(x) for x in [a, b])  ->  f'{E(a)}SEP{E(b)}'   (SEP a string literal, the iterable a display of plain values, a local bound once to
    such a display, or a conditional choice between displays - then the result is the same choice between the joined texts)."""
    def __init__(self, local_displays, loads=None):
        self.local = local_displays
        self.loads = loads or {}
        self.moved = set()          # locals whose display was moved to the (only) place that read it

    def _filtered_display(self, arg):
        """`filter(None, D)` / `(x for x in D if x)` over a display D (written there, or a local bound once to it and read only here): the elements, each
        rewritten to what it contributes to a join with the EMPTY separator (`A and X` -> `X if A else ''`; a dropped element contributes nothing)."""
        d = None
        if isinstance(arg, ast.Call) and isinstance(arg.func, ast.Name) and arg.func.id == 'filter' and len(arg.args) == 2 and not arg.keywords \
                and isinstance(arg.args[0], ast.Constant) and arg.args[0].value is None:
            d = arg.args[1]
        elif isinstance(arg, (ast.GeneratorExp, ast.ListComp)) and len(arg.generators) == 1 and isinstance(arg.generators[0].target, ast.Name) \
                and isinstance(arg.elt, ast.Name) and arg.elt.id == arg.generators[0].target.id and len(arg.generators[0].ifs) == 1 \
                and isinstance(arg.generators[0].ifs[0], ast.Name) and arg.generators[0].ifs[0].id == arg.elt.id:
            d = arg.generators[0].iter
        via = None
        if isinstance(d, ast.Name) and d.id in self.local and self.loads.get(d.id, 0) == 1:
            via, d = d.id, self.local[d.id]
        if not isinstance(d, (ast.Tuple, ast.List)) or not (1 <= len(d.elts) <= 12) or any(isinstance(e, ast.Starred) for e in d.elts):
            return None
        if via:
            self.moved.add(via)
        out = []
        for e in d.elts:
            if isinstance(e, ast.BoolOp) and isinstance(e.op, ast.And) and len(e.values) >= 2:
                test = e.values[0] if len(e.values) == 2 else ast.BoolOp(op=ast.And(), values=e.values[:-1])
                out.append(ast.IfExp(test=test, body=e.values[-1], orelse=ast.Constant(value='')))
            elif isinstance(e, ast.BoolOp) and isinstance(e.op, ast.Or) and len(e.values) == 2 and isinstance(e.values[1], ast.Constant) and e.values[1].value == '':
                out.append(e.values[0])
            elif isinstance(e, ast.IfExp) and isinstance(e.orelse, ast.Constant) and e.orelse.value in (None, ''):
                out.append(ast.IfExp(test=e.test, body=e.body, orelse=ast.Constant(value='')))
            else:
                out.append(e)
        return out

    @staticmethod
    def _display(e):
        if isinstance(e, (ast.List, ast.Tuple)) and 1 <= len(e.elts) <= 6 and all(_pure_cell(c) and not isinstance(c, ast.Lambda) for c in e.elts):
            return list(e.elts)
        return None

    def _joined(self, sep: str, elt: ast.AST, var: str, cells):
        import copy
        values: List[ast.AST] = []
        for i, c in enumerate(cells):
            if i and sep:
                values.append(ast.Constant(value=sep))
            piece = _Subst({var: c}).visit(copy.deepcopy(elt))
            if isinstance(piece, ast.JoinedStr):
                values.extend(piece.values)
            elif isinstance(piece, ast.Constant) and isinstance(piece.value, str):
                values.append(piece)
            else:
                values.append(ast.FormattedValue(value=piece, conversion=-1, format_spec=None))
        # merge adjacent constants
        merged: List[ast.AST] = []
        for v in values:
            if merged and isinstance(v, ast.Constant) and isinstance(merged[-1], ast.Constant):
                merged[-1] = ast.Constant(value=merged[-1].value + v.value)
            else:
                merged.append(v)
        return ast.JoinedStr(values=merged)

    def visit_Call(self, node):
        self.generic_visit(node)
        f = node.func
        if isinstance(f, ast.Attribute) and f.attr == 'join' and isinstance(f.value, ast.Constant) and f.value.value == '' and len(node.args) == 1 and not node.keywords:
            els = self._filtered_display(node.args[0])
            if els is not None:
                node.args = [ast.copy_location(ast.Tuple(elts=els, ctx=ast.Load()), node.args[0])]
                for x in ast.walk(node.args[0]):
                    if not hasattr(x, 'lineno'):
                        ast.copy_location(x, node)
        if isinstance(f, ast.Attribute) and f.attr == 'join' and isinstance(f.value, ast.Constant) and isinstance(f.value.value, str) and len(node.args) == 1 \
                and not node.keywords and isinstance(node.args[0], (ast.List, ast.Tuple)) and 1 <= len(node.args[0].elts) <= 12 \
                and not any(isinstance(e, ast.Starred) for e in node.args[0].elts):
            # SEP.join([e1, e2, e3])  ->  f'{e1}SEP{e2}SEP{e3}'   (the elements are evaluated in the same order)
            vals: List[ast.AST] = []
            for i, e in enumerate(node.args[0].elts):
                if i and f.value.value:
                    vals.append(ast.Constant(value=f.value.value))
                if isinstance(e, ast.JoinedStr):
                    vals.extend(e.values)
                elif isinstance(e, ast.Constant) and isinstance(e.value, str):
                    vals.append(e)
                else:
                    vals.append(ast.FormattedValue(value=e, conversion=-1, format_spec=None))
            js = ast.JoinedStr(values=vals)
            for x in ast.walk(js):
                if not hasattr(x, 'lineno'):
                    ast.copy_location(x, node)
            return ast.copy_location(js, node)
        if not (isinstance(f, ast.Attribute) and f.attr == 'join' and isinstance(f.value, ast.Constant) and isinstance(f.value.value, str)
                and len(node.args) == 1 and not node.keywords and isinstance(node.args[0], (ast.GeneratorExp, ast.ListComp))):
            return node
        g = node.args[0]
        # ''.join(E(a, b) for a, b in ROWS if C(a, b))  over a literal table (a display of tuples, or a local bound once to one)  ->  the pieces `E(row) if C(row) else ''`
        if f.value.value == '' and len(g.generators) == 1 and isinstance(g.generators[0].target, ast.Tuple) and all(isinstance(t_, ast.Name) for t_ in g.generators[0].target.elts):
            it0 = g.generators[0].iter
            if isinstance(it0, ast.Name) and it0.id in self.local:
                it0 = self.local[it0.id]
            rows = _literal_table(it0) if isinstance(it0, (ast.Tuple, ast.List)) else None
            names0 = [t_.id for t_ in g.generators[0].target.elts]
            if rows and len(rows) <= 6 and len(rows[0]) == len(names0):
                import copy
                vals0: List[ast.AST] = []
                for row in rows:
                    m0 = dict(zip(names0, row))
                    piece = _Subst(m0).visit(copy.deepcopy(g.elt))
                    conds0 = [_Subst(m0).visit(copy.deepcopy(c)) for c in g.generators[0].ifs]
                    if conds0:
                        piece = ast.IfExp(test=conds0[0] if len(conds0) == 1 else ast.BoolOp(op=ast.And(), values=conds0), body=piece, orelse=ast.Constant(value=''))
                    vals0.append(ast.FormattedValue(value=piece, conversion=-1, format_spec=None))
                js0 = ast.JoinedStr(values=vals0)
                for x in ast.walk(js0):
                    if not hasattr(x, 'lineno'):
                        ast.copy_location(x, node)
                return ast.copy_location(js0, node)
        if len(g.generators) != 1 or g.generators[0].ifs or not isinstance(g.generators[0].target, ast.Name):
            return node
        it = g.generators[0].iter
        if isinstance(it, ast.Name) and it.id in self.local:
            it = self.local[it.id]
        var = g.generators[0].target.id

        def build(e):
            cells = self._display(e)
            if cells is not None:
                return self._joined(f.value.value, g.elt, var, cells)
            if isinstance(e, ast.IfExp):
                a, b = build(e.body), build(e.orelse)
                if a is not None and b is not None:
                    import copy
                    return ast.IfExp(test=copy.deepcopy(e.test), body=a, orelse=b)
            return None
        out = build(it)
        if out is None:
            return node
        for x in ast.walk(out):
            if not hasattr(x, 'lineno'):
                ast.copy_location(x, node)
        return ast.copy_location(out, node)


class _FormatToFString(ast.NodeTransformer):
    def __init__(self, const_locals):
        self.const_locals = const_locals

    def visit_BinOp(self, node):
        # '<literal with %s>' % (a, b)   ->   f-string   (only plain %s placeholders and %%; template a literal or a name bound once to one)
        self.generic_visit(node)
        if not isinstance(node.op, ast.Mod):
            return node
        if isinstance(node.left, ast.Constant) and isinstance(node.left.value, str):
            tmpl = node.left.value
        elif isinstance(node.left, ast.Name) and node.left.id in self.const_locals:
            tmpl = self.const_locals[node.left.id]
        else:
            return node
        import copy
        import re as _re
        pieces = _re.split(r'(%s|%%)', tmpl)
        if '%' in ''.join(p_ for p_ in pieces if p_ not in ('%s', '%%')):
            return node           # other conversions (%d, %(name)s, %r ...)
        n_holes = sum(1 for p_ in pieces if p_ == '%s')
        if isinstance(node.right, ast.Tuple):
            args = list(node.right.elts)
        elif isinstance(node.right, (ast.Dict, ast.Starred)):
            return node
        else:
            if n_holes != 1 or isinstance(node.right, (ast.Name, ast.Call, ast.Attribute, ast.Subscript)) and n_holes != 1:
                return node
            # a single non-tuple operand fills the single hole - unless it could itself be a tuple at run time (a bare name / call): only literal-looking operands
            if isinstance(node.right, (ast.Name, ast.Attribute, ast.Subscript, ast.Call, ast.JoinedStr, ast.Constant, ast.BinOp)):
                args = [node.right]
            else:
                return node
        if len(args) != n_holes or any(isinstance(a, ast.Starred) for a in args):
            return node
        values = []
        it = iter(args)
        for p_ in pieces:
            if p_ == '%s':
                values.append(ast.FormattedValue(value=copy.deepcopy(next(it)), conversion=-1, format_spec=None))
            elif p_ == '%%':
                values.append(ast.Constant(value='%'))
            elif p_:
                values.append(ast.Constant(value=p_))
        js = ast.JoinedStr(values=values)
        for x in ast.walk(js):
            ast.copy_location(x, node)
        return js

    def visit_Call(self, node):
        self.generic_visit(node)
        f = node.func
        # T.format_map({'k': v, ...}) / T.format(**{'k': v})  ->  T.format(k=v, ...)
        if isinstance(f, ast.Attribute) and f.attr == 'format_map' and len(node.args) == 1 and not node.keywords and isinstance(node.args[0], ast.Dict) \
                and all(isinstance(k, ast.Constant) and isinstance(k.value, str) and k.value.isidentifier() for k in node.args[0].keys):
            node = ast.copy_location(ast.Call(func=ast.Attribute(value=f.value, attr='format', ctx=ast.Load()), args=[],
                                              keywords=[ast.keyword(arg=k.value, value=v) for k, v in zip(node.args[0].keys, node.args[0].values)]), node)
            ast.fix_missing_locations(node)
            f = node.func
        if not (isinstance(f, ast.Attribute) and f.attr == 'format'):
            return node
        if isinstance(f.value, ast.Constant) and isinstance(f.value.value, str):
            tmpl = f.value.value
        elif isinstance(f.value, ast.Name) and f.value.id in self.const_locals:
            tmpl = self.const_locals[f.value.id]
        else:
            return node
        if any(isinstance(a, ast.Starred) for a in node.args) or any(k.arg is None for k in node.keywords):
            return node
        import string
        import copy
        try:
            fields = list(string.Formatter().parse(tmpl))
        except ValueError:
            return node
        kw = {k.arg: k.value for k in node.keywords}
        values = []
        auto = 0
        for lit, field, spec, conv in fields:
            if lit:
                values.append(ast.Constant(value=lit))
            if field is None:
                continue
            if spec or conv:
                return node
            if field == '':
                key = auto
                auto += 1
            elif field.isdigit():
                key = int(field)
            elif field.isidentifier():
                key = field
            else:
                return node        # attribute / index lookups in the field name
            if isinstance(key, int):
                if key >= len(node.args):
                    return node
                v = node.args[key]
            else:
                if key not in kw:
                    return node
                v = kw[key]
            values.append(ast.FormattedValue(value=copy.deepcopy(v), conversion=-1, format_spec=None))
        js = ast.JoinedStr(values=values)
        for x in ast.walk(js):
            ast.copy_location(x, node)
        return js


def norm_src(f: ast.AST) -> str:
    try:
        return ast.unparse(f).replace(' ', '')
    except Exception:
        return ''


def norm_name(f: ast.AST) -> str:
    if isinstance(f, ast.Name):
        return f.id
    if isinstance(f, ast.Attribute):
        return f.attr
    return ''


def _eager_fusable(comp: ast.AST, body: List[ast.stmt]) -> bool:
    """A LIST comprehension is complete before the loop over it starts; reading it as a filtered loop over its source is only the same when the loop body does
    not change that source (`for k in [k for k in d if P]: del d[k]` must stay as it is).  Generator expressions are lazy: fusing them is always exact."""
    if isinstance(comp, ast.GeneratorExp):
        return True
    src = comp.generators[0].iter
    while isinstance(src, ast.Call) and isinstance(src.func, ast.Attribute) and src.func.attr in ('items', 'keys', 'values', 'copy') and not src.args:
        src = src.func.value
    if isinstance(src, ast.Call) and isinstance(src.func, ast.Name) and src.func.id in ('list', 'tuple', 'sorted', 'reversed', 'enumerate') and src.args:
        src = src.args[0]
    root = _attr_path(src) if isinstance(src, (ast.Name, ast.Attribute)) else None
    if root is None:
        return False
    READS = {'get', 'items', 'keys', 'values', 'index', 'count', 'copy', 'startswith', 'endswith'}
    for b in body:
        for x in ast.walk(b):
            if isinstance(x, (ast.Subscript, ast.Attribute)) and isinstance(x.ctx, (ast.Store, ast.Del)):
                p_ = _attr_path(x.value) if isinstance(x.value, (ast.Name, ast.Attribute)) else None
                if p_ is None or p_ == root or root.startswith(p_ + '.') or p_.startswith(root + '.'):
                    return False
            if isinstance(x, ast.Call):
                if isinstance(x.func, ast.Attribute):
                    p_ = _attr_path(x.func.value) if isinstance(x.func.value, (ast.Name, ast.Attribute)) else None
                    if p_ == root and x.func.attr not in READS:
                        return False
                    if p_ != root and x.func.attr not in READS and not (p_ or '').startswith(root + '.'):
                        # some other call: it may reach the source through another name (a method of self ...)
                        if root.split('.')[0] in ('self', 'cls') or any(isinstance(a, (ast.Name, ast.Attribute)) and (_attr_path(a) or '') == root for a in x.args):
                            return False
                elif any(isinstance(a, (ast.Name, ast.Attribute)) and (_attr_path(a) or '') == root for a in x.args):
                    return False
    return True


class Desugar(ast.NodeTransformer):
    def __init__(self, tables, classes=()):
        self.tables = tables            # name -> rows (module level and class level literal tables)
        self.classes = set(classes)

    @staticmethod
    def _cells(it: ast.AST):
        """Cells of a literal tuple/list of plain names / constants / attribute paths / f-strings over them (for `for x in (a, b):`)."""
        def ok(c):
            if isinstance(c, ast.JoinedStr):
                return all(isinstance(v, ast.Constant) or (isinstance(v, ast.FormattedValue) and _pure_cell(v.value) and v.format_spec is None) for v in c.values)
            return _pure_cell(c) and not isinstance(c, ast.Lambda)
        if isinstance(it, (ast.Tuple, ast.List)) and 1 <= len(it.elts) <= 8 and all(ok(c) for c in it.elts):
            return list(it.elts)
        return None

    def _rows(self, it: ast.AST, local_tables):
        """Rows of the literal table a loop iterates: a local / module-level / class-level name, `self.T` / `cls.T` / `Class.T`, or a display."""
        if isinstance(it, ast.Name):
            return local_tables.get(it.id) or self.tables.get(it.id)
        if isinstance(it, ast.Attribute) and isinstance(it.value, ast.Name) and (it.value.id in ('self', 'cls') or it.value.id in self.classes):
            return self.tables.get(it.attr)
        if isinstance(it, (ast.Tuple, ast.List)):
            return _literal_table(it)
        # D.items() of a dict display of pure cells (a local or module-level dispatch dict): rows (key, value) in insertion order
        if isinstance(it, ast.Call) and isinstance(it.func, ast.Attribute) and it.func.attr == 'items' and not it.args and isinstance(it.func.value, ast.Name):
            return local_tables.get(it.func.value.id + '.items()') or self.tables.get(it.func.value.id + '.items()')
        if isinstance(it, ast.Call) and isinstance(it.func, ast.Attribute) and it.func.attr == 'items' and not it.args and isinstance(it.func.value, ast.Dict):
            return _dict_rows(it.func.value)
        return None

    def _d3f(self, node):
        """D3f: any(E(a, b) for a, b in TABLE [if C])  ->  E(row1) or E(row2) ... ;  all(..) -> `and`   (TABLE a literal table of pure cells)"""
        if isinstance(node.func, ast.Name) and node.func.id in ('any', 'all') and len(node.args) == 1 and not node.keywords \
                and isinstance(node.args[0], (ast.GeneratorExp, ast.ListComp)) and len(node.args[0].generators) == 1:
            import copy
            g = node.args[0].generators[0]
            shadowed = isinstance(g.iter, ast.Name) and getattr(self, 'stores', None) is not None and self.stores.get(g.iter.id, 0) > 0
            rows = None if shadowed else self._rows(g.iter, {})
            names = [g.target] if isinstance(g.target, ast.Name) else (list(g.target.elts) if isinstance(g.target, ast.Tuple) else [])
            if rows and len(rows) <= 8 and names and all(isinstance(n_, ast.Name) for n_ in names) and (
                    (isinstance(g.target, ast.Tuple) and len(rows[0]) == len(names)) or isinstance(g.target, ast.Name)):
                is_any = node.func.id == 'any'
                vals = []
                for row in rows:
                    m = dict(zip((n_.id for n_ in names), row)) if isinstance(g.target, ast.Tuple) else {names[0].id: ast.Tuple(elts=list(row), ctx=ast.Load())}
                    sub = _Subst(m)
                    e = sub.visit(copy.deepcopy(node.args[0].elt))
                    conds = [sub.visit(copy.deepcopy(c)) for c in g.ifs]
                    if conds:
                        c_all = conds[0] if len(conds) == 1 else ast.BoolOp(op=ast.And(), values=conds)
                        e = ast.BoolOp(op=ast.And(), values=[c_all, e]) if is_any else ast.BoolOp(op=ast.Or(), values=[ast.UnaryOp(op=ast.Not(), operand=c_all), e])
                    vals.append(e)
                out = vals[0] if len(vals) == 1 else ast.BoolOp(op=ast.Or() if is_any else ast.And(), values=vals)
                if len(vals) == 1:
                    out = ast.Call(func=ast.Name(id='bool', ctx=ast.Load()), args=[out], keywords=[])
                for x in ast.walk(out):
                    if not hasattr(x, 'lineno'):
                        ast.copy_location(x, node)
                return ast.copy_location(out, node)
        return node

    def visit_FunctionDef(self, node):
        from collections import Counter
        saved = getattr(self, 'loads', None)
        self.loads = Counter(x.id for x in ast.walk(node) if isinstance(x, ast.Name) and isinstance(x.ctx, ast.Load))
        self.stores = Counter(x.id for x in ast.walk(node) if isinstance(x, ast.Name) and isinstance(x.ctx, ast.Store))
        self.attr_stores = {ast.unparse(x) for x in ast.walk(node) if isinstance(x, ast.Attribute) and isinstance(x.ctx, (ast.Store, ast.Del))}
        # D7: "<literal template>".format(a, b, k=v)  ->  f-string (only for templates that are string literals, directly or through a local bound once)
        const_locals = {}
        for x in ast.walk(node):
            if isinstance(x, ast.Assign) and len(x.targets) == 1 and isinstance(x.targets[0], ast.Name) and isinstance(x.value, ast.Constant) \
                    and isinstance(x.value.value, str) and self.stores.get(x.targets[0].id) == 1:
                const_locals[x.targets[0].id] = x.value.value
        for k_, v_ in getattr(self, 'module_strs', {}).items():
            if k_ not in self.stores:
                const_locals.setdefault(k_, v_)
        node = _FormatToFString(const_locals).visit(node)
        if any(isinstance(x, ast.Call) and isinstance(x.func, ast.Name) and x.func.id in ('any', 'all') for x in ast.walk(node)):
            outer = self

            class _D3f(ast.NodeTransformer):
                def visit_Call(self_, c):
                    self_.generic_visit(c)
                    return outer._d3f(c)
            node = _D3f().visit(node)
            ast.fix_missing_locations(node)
        # D15: p = partial(F, a, k=v) ; ... p(x)   ->   F(a, x, k=v)      (p bound once)
        partials = {}
        for x in ast.walk(node):
            if isinstance(x, ast.Assign) and len(x.targets) == 1 and isinstance(x.targets[0], ast.Name) and self.stores.get(x.targets[0].id) == 1 \
                    and isinstance(x.value, ast.Call) and (getattr(x.value.func, 'attr', None) or getattr(x.value.func, 'id', '')) == 'partial' and x.value.args \
                    and isinstance(x.value.args[0], (ast.Name, ast.Attribute)) and all(_pure_cell(a) for a in x.value.args[1:]) \
                    and all(k.arg is not None and _pure_cell(k.value) for k in x.value.keywords):
                partials[x.targets[0].id] = x.value
        if partials:
            import copy as _cp

            class _P(ast.NodeTransformer):
                def visit_Call(self_, c):
                    self_.generic_visit(c)
                    if isinstance(c.func, ast.Name) and c.func.id in partials:
                        pc = partials[c.func.id]
                        return ast.copy_location(ast.Call(func=_cp.deepcopy(pc.args[0]), args=[_cp.deepcopy(a) for a in pc.args[1:]] + c.args,
                                                          keywords=[_cp.deepcopy(k) for k in pc.keywords] + c.keywords), c)
                    return c

                def visit_Assign(self_, a):
                    self_.generic_visit(a)
                    return a
            node = _P().visit(node)
            still = Counter(x.id for x in ast.walk(node) if isinstance(x, ast.Name) and isinstance(x.ctx, ast.Load))

            class _DropP(ast.NodeTransformer):
                def visit_Assign(self_, a):
                    if len(a.targets) == 1 and isinstance(a.targets[0], ast.Name) and a.targets[0].id in partials and still.get(a.targets[0].id, 0) == 0:
                        return None
                    return a
            node = _DropP().visit(node)
            node = _FormatToFString(const_locals).visit(node)       # `partial(TEMPLATE.format, a)(b)` has become `TEMPLATE.format(a, b)`
            ast.fix_missing_locations(node)
            self.loads = Counter(x.id for x in ast.walk(node) if isinstance(x, ast.Name) and isinstance(x.ctx, ast.Load))
        # D24: opts = {'a': x, 'b': y} ; ... f(z, **opts)   (opts bound once, read once)   ->   f(z, a=x, b=y);   f(**{'a': x}) -> f(a=x)
        dlocals = {}
        for x in node.body:
            if isinstance(x, ast.Assign) and len(x.targets) == 1 and isinstance(x.targets[0], ast.Name) and isinstance(x.value, ast.Dict) and x.value.keys \
                    and all(isinstance(k, ast.Constant) and isinstance(k.value, str) and k.value.isidentifier() for k in x.value.keys) \
                    and self.stores.get(x.targets[0].id) == 1 and self.loads.get(x.targets[0].id) == 1:
                dlocals[x.targets[0].id] = x
        used_d = set()

        class _KW(ast.NodeTransformer):
            def visit_Call(self_, c):
                self_.generic_visit(c)
                new_kw = []
                for k in c.keywords:
                    d = None
                    if k.arg is None and isinstance(k.value, ast.Name) and k.value.id in dlocals:
                        d = dlocals[k.value.id].value
                        used_d.add(k.value.id)
                    elif k.arg is None and isinstance(k.value, ast.Dict) and k.value.keys and all(
                            isinstance(kk, ast.Constant) and isinstance(kk.value, str) and kk.value.isidentifier() for kk in k.value.keys):
                        d = k.value
                    if d is not None:
                        new_kw.extend(ast.keyword(arg=kk.value, value=vv) for kk, vv in zip(d.keys, d.values))
                    else:
                        new_kw.append(k)
                c.keywords = new_kw
                return c
        if dlocals or any(isinstance(x, ast.keyword) and x.arg is None and isinstance(x.value, ast.Dict) for x in ast.walk(node)):
            node = _KW().visit(node)
            if used_d:
                node.body = [b for b in node.body if not (isinstance(b, ast.Assign) and len(b.targets) == 1 and isinstance(b.targets[0], ast.Name)
                                                          and b.targets[0].id in used_d and dlocals.get(b.targets[0].id) is b)]
            ast.fix_missing_locations(node)
            self.loads = Counter(x.id for x in ast.walk(node) if isinstance(x, ast.Name) and isinstance(x.ctx, ast.Load))
            self.stores = Counter(x.id for x in ast.walk(node) if isinstance(x, ast.Name) and isinstance(x.ctx, ast.Store))
        # D10d: G = (E for y in IT) ; ... (F(x) for x in G)     (G bound once, read once, as the iterable of a comprehension)   ->   read in place and fused
        glocals = {}
        for x in node.body:
            if isinstance(x, ast.Assign) and len(x.targets) == 1 and isinstance(x.targets[0], ast.Name) and isinstance(x.value, ast.GeneratorExp) \
                    and self.stores.get(x.targets[0].id) == 1 and self.loads.get(x.targets[0].id) == 1:
                glocals[x.targets[0].id] = x
        if glocals:
            used = set()

            class _G(ast.NodeTransformer):
                def _comp(self_, c):
                    self_.generic_visit(c)
                    g0 = c.generators[0]
                    if len(c.generators) == 1 and isinstance(g0.iter, ast.Name) and g0.iter.id in glocals and g0.iter.id not in used:
                        used.add(g0.iter.id)
                        g0.iter = glocals[g0.iter.id].value
                        return _fuse_nested(c)
                    return c
                visit_GeneratorExp = visit_ListComp = visit_SetComp = _comp
            node = _G().visit(node)
            if used:
                node.body = [b for b in node.body if not (isinstance(b, ast.Assign) and b is glocals.get(getattr(b.targets[0], 'id', None)) and b.targets[0].id in used)]
                ast.fix_missing_locations(node)
                self.loads = Counter(x.id for x in ast.walk(node) if isinstance(x, ast.Name) and isinstance(x.ctx, ast.Load))
                self.stores = Counter(x.id for x in ast.walk(node) if isinstance(x, ast.Name) and isinstance(x.ctx, ast.Store))
        # D9: joins over displays (directly or through a local bound once)
        local_displays = {}
        for x in ast.walk(node):
            if isinstance(x, ast.Assign) and len(x.targets) == 1 and isinstance(x.targets[0], ast.Name) and self.stores.get(x.targets[0].id) == 1 \
                    and isinstance(x.value, (ast.List, ast.Tuple, ast.IfExp)):
                local_displays[x.targets[0].id] = x.value
        if any(isinstance(x, ast.Attribute) and x.attr == 'join' for x in ast.walk(node)):
            jod = _JoinOverDisplay(local_displays, self.loads)
            node = jod.visit(node)
            moved = jod.moved
            # a display local that was only read by the join is dead now
            loads_now = Counter(x.id for x in ast.walk(node) if isinstance(x, ast.Name) and isinstance(x.ctx, ast.Load))
            dead = {n for n in local_displays if loads_now.get(n, 0) == 0 and self.loads.get(n, 0) > 0}
            if dead:
                class _Drop(ast.NodeTransformer):
                    def visit_Assign(self_, a):
                        if len(a.targets) == 1 and isinstance(a.targets[0], ast.Name) and a.targets[0].id in dead and a.targets[0].id in moved:
                            return None
                        if len(a.targets) == 1 and isinstance(a.targets[0], ast.Name) and a.targets[0].id in dead and all(
                                _pure_cell(c) for d in ([a.value] if not isinstance(a.value, ast.IfExp) else [a.value.body, a.value.orelse])
                                for c in (d.elts if isinstance(d, (ast.List, ast.Tuple)) else [ast.Call(func=ast.Name(id='x', ctx=ast.Load()), args=[], keywords=[])])):
                            return None
                        return a
                node = _Drop().visit(node)
                if not node.body:
                    node.body = [ast.Pass()]
                self.loads = loads_now
        try:
            return self.generic_visit(node)
        finally:
            self.loads = saved

    def _d8(self, body: List[ast.stmt]) -> List[ast.stmt]:
        """D8: a local list built from a display and (conditional) appends and then only iterated:
               L = [a] ; if C: L.append(b) ; for k in L: BODY      ->      BODY[k:=a] ; if C: BODY[k:=b]
        Only when L (and plain aliases of it) has no other use, the loop bodies have no break/continue/else and do not mention L, and nothing in the function
        assigns the names / attribute paths C reads (so C means the same at the loop as at the append)."""
        import copy
        if getattr(self, 'loads', None) is None:
            return body
        body = list(body)
        j = 0
        while j < len(body):
            st = body[j]
            j += 1
            if not (isinstance(st, ast.Assign) and len(st.targets) == 1 and isinstance(st.targets[0], ast.Name) and self.stores.get(st.targets[0].id, 0) == 1):
                continue

            def cells(d):
                if isinstance(d, (ast.List, ast.Tuple)) and len(d.elts) <= 6 and all(_pure_cell(e) and not isinstance(e, ast.Lambda) for e in d.elts):
                    return list(d.elts)
                return None
            elems = None
            if cells(st.value) is not None and len(st.value.elts) >= 1:
                elems = [(None, e) for e in cells(st.value)]
            elif isinstance(st.value, ast.IfExp) and _pure_cell(st.value.test) and cells(st.value.body) is not None and cells(st.value.orelse) is not None:
                # [a, b] if C else [a]: the common prefix always, the rest under C (or under not C)
                a_, b_ = cells(st.value.body), cells(st.value.orelse)
                short, long_, cond = (b_, a_, st.value.test) if len(a_) >= len(b_) else (a_, b_, ast.UnaryOp(op=ast.Not(), operand=st.value.test))
                if long_ and [ast.dump(x) for x in long_[:len(short)]] == [ast.dump(x) for x in short]:         # (`[x] if C else []`: the empty common prefix)
                    elems = [(None, e) for e in short] + [(cond, e) for e in long_[len(short):]]
            if not elems:
                continue
            names = {st.targets[0].id}
            consumed = [j - 1]
            loops: List[int] = []
            accounted = 0
            ok = True
            for k in range(j, len(body)):
                s2 = body[k]
                if not any(isinstance(x, ast.Name) and x.id in names for x in ast.walk(s2)):
                    continue

                def is_append(e):
                    return isinstance(e, ast.Expr) and isinstance(e.value, ast.Call) and isinstance(e.value.func, ast.Attribute) and e.value.func.attr == 'append' \
                        and isinstance(e.value.func.value, ast.Name) and e.value.func.value.id in names and len(e.value.args) == 1 and not e.value.keywords \
                        and _pure_cell(e.value.args[0]) and not isinstance(e.value.args[0], ast.Lambda) \
                        and not any(isinstance(x, ast.Name) and x.id in names for x in ast.walk(e.value.args[0]))
                if is_append(s2) and not loops:
                    elems.append((None, s2.value.args[0]))
                    consumed.append(k)
                    accounted += 1
                elif isinstance(s2, ast.If) and not s2.orelse and len(s2.body) == 1 and is_append(s2.body[0]) and not loops and _pure_cell(s2.test) \
                        and not any(isinstance(x, ast.Name) and x.id in names for x in ast.walk(s2.test)):
                    elems.append((s2.test, s2.body[0].value.args[0]))
                    consumed.append(k)
                    accounted += 1
                elif isinstance(s2, ast.Assign) and len(s2.targets) == 1 and isinstance(s2.targets[0], ast.Name) and isinstance(s2.value, ast.Name) and s2.value.id in names \
                        and self.stores.get(s2.targets[0].id, 0) == 1:
                    names.add(s2.targets[0].id)
                    consumed.append(k)
                    accounted += 1
                elif isinstance(s2, ast.For) and isinstance(s2.iter, ast.Name) and s2.iter.id in names and isinstance(s2.target, ast.Name) and not s2.orelse \
                        and not any(isinstance(x, (ast.Break, ast.Continue)) for b in s2.body for x in ast.walk(b)) \
                        and not any(isinstance(x, ast.Name) and (x.id in names or (x.id == s2.target.id and isinstance(x.ctx, ast.Store))) for b in s2.body for x in ast.walk(b)):
                    loops.append(k)
                    accounted += 1
                else:
                    ok = False
                    break
            if not ok or not loops or accounted != sum(self.loads.get(n, 0) for n in names):
                continue
            # the conditions must mean the same where the loops stand
            stable = True
            for c, _ in elems:
                if c is None:
                    continue
                for x in ast.walk(c):
                    if isinstance(x, ast.Name) and self.stores.get(x.id, 0) > 0:
                        stable = False
                    if isinstance(x, ast.Attribute) and ast.unparse(x) in self.attr_stores:
                        stable = False
            if not stable:
                continue
            new_body: List[ast.stmt] = []
            for k, s2 in enumerate(body):
                if k in consumed:
                    continue
                if k in loops:
                    for c, e in elems:
                        copies = [_Subst({s2.target.id: e}).visit(copy.deepcopy(b)) for b in s2.body]
                        if c is not None:
                            copies = [ast.If(test=copy.deepcopy(c), body=copies, orelse=[])]
                        for nb in copies:
                            for x in ast.walk(nb):
                                if not hasattr(x, 'lineno'):
                                    ast.copy_location(x, s2)
                            ast.copy_location(nb, s2)
                            new_body.append(nb)
                    continue
                new_body.append(s2)
            for n in names:
                self.loads[n] = 0
            body = new_body
            j = 0
        return body

    def _body(self, body: List[ast.stmt], local_tables=None) -> List[ast.stmt]:
        import copy
        # statements after a raise / return / break / continue in the same block are never reached (left behind by rewrites that move a raising branch into a loop)
        for k_, s_ in enumerate(body):
            if isinstance(s_, (ast.Raise, ast.Return, ast.Break, ast.Continue)) and k_ + 1 < len(body):
                body = list(body[:k_ + 1])
                break
        # D0: flag = any(..)/all(..) ; if [not] flag: ...   ->  the call moves into the test (flag read nowhere else, assigned once)
        body = list(body)
        j = 0
        while j + 1 < len(body):
            a, b = body[j], body[j + 1]
            if isinstance(a, ast.Assign) and len(a.targets) == 1 and isinstance(a.targets[0], ast.Name) and isinstance(a.value, ast.Call) \
                    and isinstance(a.value.func, ast.Name) and a.value.func.id in ('any', 'all') and isinstance(b, ast.If) \
                    and getattr(self, 'loads', None) is not None and self.loads.get(a.targets[0].id, 0) == 1 and self.stores.get(a.targets[0].id, 0) == 1:
                v = a.targets[0].id
                t = b.test
                if isinstance(t, ast.Name) and t.id == v:
                    b.test = a.value
                    del body[j]
                    continue
                if isinstance(t, ast.UnaryOp) and isinstance(t.op, ast.Not) and isinstance(t.operand, ast.Name) and t.operand.id == v:
                    t.operand = a.value
                    del body[j]
                    continue
            j += 1
        # D13b: if P and (v := (A if C else None)) is not None: BODY   (no else; A a text that cannot be None)   ->   if P and C: v = A ; BODY
        def _non_none(e):
            return isinstance(e, (ast.JoinedStr, ast.BinOp)) or (isinstance(e, ast.Constant) and e.value is not None) or (
                isinstance(e, ast.Call) and isinstance(e.func, ast.Attribute) and e.func.attr in ('join', 'format', 'strip', 'lower', 'upper', 'replace'))
        for b0 in body:
            if isinstance(b0, ast.If) and not b0.orelse:
                t0 = b0.test
                ops_ = t0.values if isinstance(t0, ast.BoolOp) and isinstance(t0.op, ast.And) else [t0]
                last = ops_[-1]
                if isinstance(last, ast.Compare) and len(last.ops) == 1 and isinstance(last.ops[0], ast.IsNot) and isinstance(last.comparators[0], ast.Constant) \
                        and last.comparators[0].value is None and isinstance(last.left, ast.NamedExpr) and isinstance(last.left.value, ast.IfExp) \
                        and isinstance(last.left.value.orelse, ast.Constant) and last.left.value.orelse.value is None and _non_none(last.left.value.body) \
                        and not any(isinstance(x, (ast.NamedExpr, ast.Call)) for x in ast.walk(last.left.value.test)):
                    ne = last.left
                    new_ops = list(ops_[:-1]) + [ne.value.test]
                    b0.test = new_ops[0] if len(new_ops) == 1 else ast.copy_location(ast.BoolOp(op=ast.And(), values=new_ops), t0)
                    asg = ast.copy_location(ast.Assign(targets=[ast.Name(id=ne.target.id, ctx=ast.Store())], value=ne.value.body), b0)
                    ast.fix_missing_locations(asg)
                    b0.body = [asg] + list(b0.body)
        # D13: if (v := E) ...:   ->   v = E ; if v ...:        (the assignment expression is what the test evaluates first)
        import copy
        body = list(body)
        bi = 0
        while bi < len(body):
            b0 = body[bi]
            if isinstance(b0, ast.If):
                def first_slot(t):
                    # (holder, field, index) of the sub-expression evaluated first
                    if isinstance(t, ast.NamedExpr):
                        return None
                    if isinstance(t, ast.UnaryOp) and isinstance(t.op, ast.Not) and isinstance(t.operand, ast.NamedExpr):
                        return (t, 'operand', None)
                    if isinstance(t, ast.Compare) and isinstance(t.left, ast.NamedExpr):
                        return (t, 'left', None)
                    if isinstance(t, ast.BoolOp) and t.values and isinstance(t.values[0], ast.NamedExpr):
                        return (t, 'values', 0)
                    if isinstance(t, ast.BoolOp) and t.values and isinstance(t.values[0], (ast.Compare, ast.UnaryOp)):
                        return first_slot(t.values[0])
                    return False
                slot = first_slot(b0.test)
                ne = None
                if slot is None:
                    ne = b0.test
                    b0.test = ast.copy_location(ast.Name(id=ne.target.id, ctx=ast.Load()), ne)
                elif slot:
                    holder, fld, ix = slot
                    ne = getattr(holder, fld) if ix is None else getattr(holder, fld)[ix]
                    repl = ast.copy_location(ast.Name(id=ne.target.id, ctx=ast.Load()), ne)
                    if ix is None:
                        setattr(holder, fld, repl)
                    else:
                        getattr(holder, fld)[ix] = repl
                if ne is not None:
                    asg = ast.copy_location(ast.Assign(targets=[ast.Name(id=ne.target.id, ctx=ast.Store())], value=ne.value), b0)
                    ast.fix_missing_locations(asg)
                    body.insert(bi, asg)
                    bi += 1
            bi += 1
        # D10e: L = [] ; ... L.append(K) (in loops) ... ; C = Counter(L)    (L used for nothing else)   ->   C = {} ; ... C[K] = C.get(K, 0) + 1 ...
        for bi, b0 in enumerate(body):
            if not (isinstance(b0, ast.Assign) and len(b0.targets) == 1 and isinstance(b0.targets[0], ast.Name) and isinstance(b0.value, ast.Call)
                    and norm_name(b0.value.func) == 'Counter' and len(b0.value.args) == 1 and not b0.value.keywords and isinstance(b0.value.args[0], ast.Name)):
                continue
            cn, ln = b0.targets[0].id, b0.value.args[0].id
            inits = [j for j, s_ in enumerate(body[:bi]) if isinstance(s_, ast.Assign) and len(s_.targets) == 1 and isinstance(s_.targets[0], ast.Name)
                     and s_.targets[0].id == ln and isinstance(s_.value, ast.List) and not s_.value.elts]
            if len(inits) != 1 or getattr(self, 'stores', None) is None or self.stores.get(ln, 0) != 1 or self.stores.get(cn, 0) != 1:
                continue
            appends = [x for s_ in body[inits[0] + 1:bi] for x in ast.walk(s_) if isinstance(x, ast.Expr) and isinstance(x.value, ast.Call)
                       and isinstance(x.value.func, ast.Attribute) and x.value.func.attr == 'append' and isinstance(x.value.func.value, ast.Name)
                       and x.value.func.value.id == ln and len(x.value.args) == 1]
            if not appends or self.loads.get(ln, 0) != len(appends) + 1:
                continue
            for x in appends:
                key = x.value.args[0]
                x.value = None          # marker: replaced below

                def inc(key=key):
                    return ast.Assign(targets=[ast.Subscript(value=ast.Name(id=cn, ctx=ast.Load()), slice=copy.deepcopy(key), ctx=ast.Store())],
                                      value=ast.BinOp(left=ast.Call(func=ast.Attribute(value=ast.Name(id=cn, ctx=ast.Load()), attr='get', ctx=ast.Load()),
                                                                    args=[copy.deepcopy(key), ast.Constant(value=0)], keywords=[]), op=ast.Add(), right=ast.Constant(value=1)))
                x._counter_inc = inc()

            class _Inc(ast.NodeTransformer):
                def visit_Expr(self_, n):
                    if getattr(n, '_counter_inc', None) is not None:
                        return ast.copy_location(n._counter_inc, n)
                    return n

            class _CounterReads2(ast.NodeTransformer):
                def visit_Subscript(self_, n):
                    self_.generic_visit(n)
                    if isinstance(n.ctx, ast.Load) and isinstance(n.value, ast.Name) and n.value.id == cn:
                        return ast.copy_location(ast.Call(func=ast.Attribute(value=n.value, attr='get', ctx=ast.Load()), args=[n.slice, ast.Constant(value=0)], keywords=[]), n)
                    return n
            body[inits[0]] = ast.copy_location(ast.Assign(targets=[ast.Name(id=cn, ctx=ast.Store())], value=ast.Dict(keys=[], values=[])), body[inits[0]])
            body[inits[0] + 1:bi] = [_Inc().visit(s_) for s_ in body[inits[0] + 1:bi]]
            body[bi + 1:] = [_CounterReads2().visit(s_) for s_ in body[bi + 1:]]
            del body[bi]
            for s_ in body:
                ast.fix_missing_locations(s_)
            break
        # D23: v = {K: V, ...} if T else {}   ->   v = {} ; if T: v[K] = V ...        (and the mirrored form)
        bi = 0
        while bi < len(body):
            b0 = body[bi]
            if isinstance(b0, ast.Assign) and len(b0.targets) == 1 and isinstance(b0.targets[0], ast.Name) and isinstance(b0.value, ast.IfExp) \
                    and isinstance(b0.value.body, ast.Dict) and isinstance(b0.value.orelse, ast.Dict) and (not b0.value.body.keys) != (not b0.value.orelse.keys) \
                    and all(k is not None for k in b0.value.body.keys + b0.value.orelse.keys):
                full, test = (b0.value.body, b0.value.test) if b0.value.body.keys else (b0.value.orelse, ast.UnaryOp(op=ast.Not(), operand=b0.value.test))
                vn = b0.targets[0].id
                init = ast.Assign(targets=[ast.Name(id=vn, ctx=ast.Store())], value=ast.Dict(keys=[], values=[]))
                stores_ = [ast.Assign(targets=[ast.Subscript(value=ast.Name(id=vn, ctx=ast.Load()), slice=k, ctx=ast.Store())], value=v) for k, v in zip(full.keys, full.values)]
                cond = ast.If(test=test, body=stores_, orelse=[])
                for st_ in (init, cond):
                    ast.copy_location(st_, b0)
                    ast.fix_missing_locations(st_)
                body[bi:bi + 1] = [init, cond]
                bi += 2
                continue
            bi += 1
        # D21: list(filter(None, (E1 if C1 else None, C2 and E2, LIT)))   ->   _opt = [] ; if C1: _opt.append(E1) ; if C2: _opt.append(E2) ; _opt.append(LIT)
        #      (the list of optional parts written as one expression; the conditional-append form is what the text rules read.  An E that could itself be the empty
        #      string would be dropped by the filter and kept by the rewrite: the elements accepted are literals, f-strings with literal text, and calls)
        def optional_display(e):
            inner = None
            if isinstance(e, ast.Call) and isinstance(e.func, ast.Name) and e.func.id in ('list', 'tuple') and len(e.args) == 1 and not e.keywords:
                return optional_display(e.args[0])
            if isinstance(e, ast.Call) and isinstance(e.func, ast.Name) and e.func.id == 'filter' and len(e.args) == 2 and isinstance(e.args[0], ast.Constant) \
                    and e.args[0].value is None:
                inner = e.args[1]
            elif isinstance(e, (ast.ListComp, ast.GeneratorExp)) and len(e.generators) == 1 and isinstance(e.generators[0].target, ast.Name) \
                    and isinstance(e.elt, ast.Name) and e.elt.id == e.generators[0].target.id and len(e.generators[0].ifs) == 1 \
                    and isinstance(e.generators[0].ifs[0], ast.Name) and e.generators[0].ifs[0].id == e.elt.id:
                inner = e.generators[0].iter
            if isinstance(inner, ast.Name) and getattr(self, 'loads', None) is not None and self.loads.get(inner.id, 0) == 1 and self.stores.get(inner.id, 0) == 1:
                # a local bound once to the display and read only here
                defs = [b_ for b_ in body if isinstance(b_, ast.Assign) and len(b_.targets) == 1 and isinstance(b_.targets[0], ast.Name) and b_.targets[0].id == inner.id]
                if len(defs) == 1 and isinstance(defs[0].value, (ast.Tuple, ast.List)):
                    via_local.append(defs[0])
                    inner = defs[0].value
            if not isinstance(inner, (ast.Tuple, ast.List)) or not (1 <= len(inner.elts) <= 12):
                return None

            def textual(x):
                return (isinstance(x, ast.Constant) and isinstance(x.value, str) and x.value != '') or isinstance(x, ast.Call) or (
                    isinstance(x, ast.JoinedStr) and any(isinstance(v, ast.Constant) and v.value for v in x.values))
            parts = []
            for x in inner.elts:
                if isinstance(x, ast.IfExp) and isinstance(x.orelse, ast.Constant) and not x.orelse.value and textual(x.body):
                    parts.append((x.test, x.body))
                elif isinstance(x, ast.BoolOp) and isinstance(x.op, ast.And) and len(x.values) >= 2 and textual(x.values[-1]):
                    parts.append((x.values[0] if len(x.values) == 2 else ast.BoolOp(op=ast.And(), values=x.values[:-1]), x.values[-1]))
                elif textual(x) and not isinstance(x, ast.Call):
                    parts.append((None, x))
                else:
                    return None
            return parts if any(c is not None for c, _ in parts) else None
        bi = 0
        n_opt = [0]
        via_local: List[ast.stmt] = []
        while bi < len(body):
            b0 = body[bi]
            if isinstance(b0, (ast.Return, ast.Assign, ast.Expr, ast.AugAssign)) and b0.value is not None:
                found = None
                for x in ast.walk(b0.value):
                    if isinstance(x, (ast.Call, ast.ListComp, ast.GeneratorExp)) and not isinstance(x, ast.Lambda):
                        del via_local[:]
                        # (E(p) for p in filter(None, D)): the mapped form - every part that is present contributes E(part)
                        if isinstance(x, (ast.ListComp, ast.GeneratorExp)) and len(x.generators) == 1 and not x.generators[0].ifs and isinstance(x.generators[0].target, ast.Name) \
                                and not (isinstance(x.elt, ast.Name) and x.elt.id == x.generators[0].target.id):
                            inner_parts = optional_display(x.generators[0].iter)
                            if inner_parts is not None:
                                pv = x.generators[0].target.id
                                found = (x, [(c_, _Subst({pv: v_}).visit(copy.deepcopy(x.elt))) for c_, v_ in inner_parts])
                                break
                            del via_local[:]
                        parts = optional_display(x)
                        if parts is not None:
                            found = (x, parts)
                            break
                        del via_local[:]
                if found is not None and not any(isinstance(y, (ast.Lambda, ast.GeneratorExp, ast.ListComp, ast.DictComp, ast.SetComp)) and any(z is found[0] for z in ast.walk(y))
                                                 and y is not found[0] for y in ast.walk(b0.value)):
                    x, parts = found
                    n_opt[0] += 1
                    used_names = {y.id for s_ in body for y in ast.walk(s_) if isinstance(y, ast.Name)}
                    vn = next(n_ for n_ in (f'_opt{k_}' for k_ in range(1, 50)) if n_ not in used_names)
                    pre: List[ast.stmt] = [ast.Assign(targets=[ast.Name(id=vn, ctx=ast.Store())], value=ast.List(elts=[], ctx=ast.Load()))]
                    for cnd, val in parts:
                        app: ast.stmt = ast.Expr(value=ast.Call(func=ast.Attribute(value=ast.Name(id=vn, ctx=ast.Load()), attr='append', ctx=ast.Load()), args=[val], keywords=[]))
                        pre.append(app if cnd is None else ast.If(test=cnd, body=[app], orelse=[]))

                    class _R(ast.NodeTransformer):
                        def generic_visit(self_, n):
                            if n is x:
                                return ast.copy_location(ast.Name(id=vn, ctx=ast.Load()), n)
                            return super().generic_visit(n)
                    b0.value = _R().visit(b0.value)
                    for st_ in pre:
                        ast.copy_location(st_, b0)
                        ast.fix_missing_locations(st_)
                    body[bi:bi] = pre
                    bi += len(pre)
                    for dead in via_local:          # the display local has been consumed
                        k_ = next((j_ for j_, b_ in enumerate(body) if b_ is dead), None)
                        if k_ is not None:
                            del body[k_]
                            bi -= 1
                    del via_local[:]
                    if getattr(self, 'stores', None) is not None:
                        self.stores[vn] = 1
                        self.loads[vn] = self.loads.get(vn, 0) + 1 + len(parts)
                    continue
            bi += 1
        # D20: if A: f = X elif B: f = Y else: raise ... ; S(f(args))     ->     the statement S moves into each branch with the callable in place
        #      (f bound to a plain callable - a name, attrgetter/methodcaller, a lambda - as the last statement of every branch that falls through; f read once)
        bi = 0
        while bi + 1 < len(body):
            b0, b1 = body[bi], body[bi + 1]
            done = False
            # f = X if C else Y ; S(f(args))   (X, Y plain callables, f read once - by that call)   ->   if C: f = X else: f = Y ; S(f(args))   -> D20
            if isinstance(b0, ast.Assign) and len(b0.targets) == 1 and isinstance(b0.targets[0], ast.Name) and isinstance(b0.value, ast.IfExp) \
                    and all(isinstance(a_, (ast.Name, ast.Attribute, ast.Lambda)) or (isinstance(a_, ast.Call) and _pure_cell(a_)) for a_ in (b0.value.body, b0.value.orelse)) \
                    and getattr(self, 'loads', None) is not None and self.loads.get(b0.targets[0].id, 0) == 1 and self.stores.get(b0.targets[0].id, 0) == 1 \
                    and isinstance(b1, (ast.Return, ast.Assign, ast.Expr)) and any(
                        isinstance(c_, ast.Call) and isinstance(c_.func, ast.Name) and c_.func.id == b0.targets[0].id for c_ in ast.walk(b1)):
                vn_ = b0.targets[0].id
                b0 = ast.copy_location(ast.If(test=b0.value.test,
                                              body=[ast.Assign(targets=[ast.Name(id=vn_, ctx=ast.Store())], value=b0.value.body)],
                                              orelse=[ast.Assign(targets=[ast.Name(id=vn_, ctx=ast.Store())], value=b0.value.orelse)]), b0)
                ast.fix_missing_locations(b0)
                body[bi] = b0
                self.stores[vn_] = 2
            if isinstance(b0, ast.If) and isinstance(b1, (ast.Return, ast.Assign, ast.Expr)) and getattr(self, 'loads', None) is not None:
                calls = [c for c in ast.walk(b1) if isinstance(c, ast.Call) and isinstance(c.func, ast.Name) and self.loads.get(c.func.id, 0) == 1]
                for c in calls:
                    v = c.func.id
                    leaves: List[List[ast.stmt]] = []

                    def collect(node) -> bool:
                        ok = True
                        for blk in (node.body, node.orelse):
                            if len(blk) == 1 and isinstance(blk[0], ast.If) and blk is node.orelse:
                                ok = collect(blk[0]) and ok
                            else:
                                leaves.append(blk)
                        return ok
                    collect(b0)
                    falls = [blk for blk in leaves if not (blk and isinstance(blk[-1], (ast.Raise, ast.Return, ast.Continue, ast.Break)))]
                    if not falls or not all(blk and isinstance(blk[-1], ast.Assign) and len(blk[-1].targets) == 1 and isinstance(blk[-1].targets[0], ast.Name)
                                            and blk[-1].targets[0].id == v and _pure_cell(blk[-1].value) for blk in falls):
                        continue
                    if self.stores.get(v, 0) != len(falls):
                        continue
                    for blk in falls:
                        val = blk[-1].value
                        stmt = copy.deepcopy(b1)
                        for c2 in ast.walk(stmt):
                            if isinstance(c2, ast.Call) and isinstance(c2.func, ast.Name) and c2.func.id == v:
                                c2.func = copy.deepcopy(val)
                        stmt = _Subst({}).visit(stmt)
                        ast.fix_missing_locations(stmt)
                        blk[-1] = stmt
                    del body[bi + 1]
                    self.stores[v] = 0
                    done = True
                    break
            bi += 1
        # D19: if C: v = <display A> else: v = <display B>   ->   v = A if C else B      (one binding; D9 then reads joins over it)
        for bi, b0 in enumerate(body):
            if isinstance(b0, ast.If) and len(b0.body) == 1 and len(b0.orelse) == 1 and all(
                    isinstance(x, ast.Assign) and len(x.targets) == 1 and isinstance(x.targets[0], ast.Name) and isinstance(x.value, (ast.Tuple, ast.List))
                    and not any(isinstance(e, ast.Starred) for e in x.value.elts) for x in (b0.body[0], b0.orelse[0])) \
                    and b0.body[0].targets[0].id == b0.orelse[0].targets[0].id and getattr(self, 'stores', None) is not None \
                    and self.stores.get(b0.body[0].targets[0].id, 0) == 2:
                vname = b0.body[0].targets[0].id
                body[bi] = ast.copy_location(ast.Assign(targets=[ast.Name(id=vname, ctx=ast.Store())],
                                                        value=ast.IfExp(test=b0.test, body=b0.body[0].value, orelse=b0.orelse[0].value)), b0)
                ast.fix_missing_locations(body[bi])
                self.stores[vname] = 1
        # D18: L = [E(x) for x in (*A, *B, c)]   ->   L = [] ; L.extend(E(x) for x in A) ; L.extend(E(x) for x in B) ; L.append(E(c))
        bi = 0
        while bi < len(body):
            b0 = body[bi]
            tgt = None
            if isinstance(b0, ast.Assign) and len(b0.targets) == 1 and isinstance(b0.targets[0], ast.Name):
                tgt = b0.targets[0]
            elif isinstance(b0, ast.AnnAssign) and isinstance(b0.target, ast.Name) and b0.value is not None:
                tgt = b0.target
            v0 = b0.value if tgt is not None else None
            if tgt is not None and isinstance(v0, ast.ListComp) and len(v0.generators) == 1 and isinstance(v0.generators[0].target, ast.Name) \
                    and isinstance(v0.generators[0].iter, (ast.Tuple, ast.List)) and any(isinstance(e, ast.Starred) for e in v0.generators[0].iter.elts) \
                    and len(v0.generators[0].iter.elts) <= 8 and not any(isinstance(x, ast.Name) and x.id == tgt.id for x in ast.walk(v0)):
                g0 = v0.generators[0]
                new_stmts: List[ast.stmt] = [ast.Assign(targets=[ast.Name(id=tgt.id, ctx=ast.Store())], value=ast.List(elts=[], ctx=ast.Load()))]
                for e in g0.iter.elts:
                    if isinstance(e, ast.Starred):
                        gen = ast.GeneratorExp(elt=copy.deepcopy(v0.elt), generators=[ast.comprehension(target=copy.deepcopy(g0.target), iter=e.value,
                                                                                                        ifs=[copy.deepcopy(c) for c in g0.ifs], is_async=0)])
                        gen = _fuse_nested(gen)
                        call = ast.Call(func=ast.Attribute(value=ast.Name(id=tgt.id, ctx=ast.Load()), attr='extend', ctx=ast.Load()), args=[gen], keywords=[])
                        new_stmts.append(ast.Expr(value=call))
                    else:
                        item = _Subst({g0.target.id: e}).visit(copy.deepcopy(v0.elt))
                        call = ast.Call(func=ast.Attribute(value=ast.Name(id=tgt.id, ctx=ast.Load()), attr='append', ctx=ast.Load()), args=[item], keywords=[])
                        st_: ast.stmt = ast.Expr(value=call)
                        if g0.ifs:
                            conds = [_Subst({g0.target.id: e}).visit(copy.deepcopy(c)) for c in g0.ifs]
                            st_ = ast.If(test=conds[0] if len(conds) == 1 else ast.BoolOp(op=ast.And(), values=conds), body=[st_], orelse=[])
                        new_stmts.append(st_)
                for st_ in new_stmts:
                    ast.copy_location(st_, b0)
                    ast.fix_missing_locations(st_)
                body[bi:bi + 1] = new_stmts
                bi += len(new_stmts)
                continue
            bi += 1
        # D12: M.update(dict.fromkeys(KEYS, V))   ->   for k in KEYS: M[k] = V
        for bi, b0 in enumerate(body):
            if isinstance(b0, ast.Expr) and isinstance(b0.value, ast.Call) and isinstance(b0.value.func, ast.Attribute) and b0.value.func.attr == 'update' \
                    and len(b0.value.args) == 1 and not b0.value.keywords and isinstance(b0.value.args[0], ast.Call) and norm_src(b0.value.args[0].func) == 'dict.fromkeys' \
                    and len(b0.value.args[0].args) == 2 and _pure_cell(b0.value.args[0].args[1]):
                ks, v = b0.value.args[0].args
                kv = '_k_upd'
                store = ast.Assign(targets=[ast.Subscript(value=b0.value.func.value, slice=ast.Name(id=kv, ctx=ast.Load()), ctx=ast.Store())], value=v)
                loop = ast.For(target=ast.Name(id=kv, ctx=ast.Store()), iter=ks, body=[store], orelse=[])
                for x in ast.walk(loop):
                    if not hasattr(x, 'lineno'):
                        ast.copy_location(x, b0)
                ast.copy_location(loop, b0)
                body[bi] = loop
        body = self._d8(body)
        local_tables = dict(local_tables or {})
        out: List[ast.stmt] = []
        i = 0
        while i < len(body):
            st = self.visit(body[i])
            nxt = body[i + 1] if i + 1 < len(body) else None
            # literal tables assigned locally
            if isinstance(st, ast.Assign) and len(st.targets) == 1 and isinstance(st.targets[0], ast.Name):
                rows = _literal_table(st.value)
                if rows is not None:
                    local_tables[st.targets[0].id] = rows
                drows = _dict_rows(st.value)
                if drows is not None and getattr(self, 'stores', None) is not None and self.stores.get(st.targets[0].id, 0) == 1:
                    local_tables[st.targets[0].id + '.items()'] = drows
            # D3d: for x in (*A, *B): body   ->  for x in A: body ; for x in B: body     (no break, no else)
            if isinstance(st, ast.For) and not st.orelse and isinstance(st.iter, (ast.Tuple, ast.List)) and len(st.iter.elts) >= 2 \
                    and all(isinstance(x, ast.Starred) for x in st.iter.elts) and not any(isinstance(x, ast.Break) for b in st.body for x in ast.walk(b)):
                for part in st.iter.elts:
                    lp = ast.For(target=copy.deepcopy(st.target), iter=part.value, body=copy.deepcopy(st.body), orelse=[])
                    for x in ast.walk(lp):
                        if not hasattr(x, 'lineno'):
                            ast.copy_location(x, st)
                    out.append(ast.copy_location(lp, st))
                i += 1
                continue
            # D3a: for x in (a, b, c): body   ->  unrolled copies (no break/continue in the body)
            if isinstance(st, ast.For) and not st.orelse and isinstance(st.target, ast.Name) and self._cells(st.iter) is not None \
                    and not any(isinstance(x, (ast.Break, ast.Continue)) for b in st.body for x in ast.walk(b)) \
                    and not any(isinstance(x, ast.Name) and x.id == st.target.id and isinstance(x.ctx, ast.Store) for b in st.body for x in ast.walk(b)):
                for cell in self._cells(st.iter):
                    for b in st.body:
                        nb = _Subst({st.target.id: cell}).visit(copy.deepcopy(b))
                        ast.copy_location(nb, st)
                        out.append(nb)
                i += 1
                continue
            # D11: D = {K: V for x in IT [if C]} ; T = D.get(Q[, F])     (D used only there)
            #        ->   [q = Q] ; T = F ; for x in IT: if C and K == q: T = V          (an index built to be asked once is a search; the last match wins)
            if isinstance(st, ast.Assign) and len(st.targets) == 1 and isinstance(st.value, ast.Call) and isinstance(st.value.func, ast.Attribute) \
                    and st.value.func.attr == 'get' and isinstance(st.value.func.value, ast.Name) and 1 <= len(st.value.args) <= 2 and not st.value.keywords \
                    and getattr(self, 'loads', None) is not None and self.loads.get(st.value.func.value.id, 0) == 1 and self.stores.get(st.value.func.value.id, 0) == 1 \
                    and isinstance(st.targets[0], (ast.Name, ast.Attribute)):
                dname = st.value.func.value.id
                ddef = [(k_, o) for k_, o in enumerate(out) if isinstance(o, ast.Assign) and len(o.targets) == 1 and isinstance(o.targets[0], ast.Name)
                        and o.targets[0].id == dname and isinstance(o.value, ast.DictComp) and len(o.value.generators) == 1]
                if len(ddef) == 1:
                    k_, o = ddef[0]
                    dc = copy.deepcopy(o.value)
                    g = dc.generators[0]
                    # the comprehension's own variables live in their own scope: rename them so they cannot collide with the function's names
                    ren = {x.id: f'_{x.id}_{dname}' for x in ast.walk(g.target) if isinstance(x, ast.Name)}

                    class _R(ast.NodeTransformer):
                        def visit_Name(self_, n):
                            if n.id in ren:
                                return ast.copy_location(ast.Name(id=ren[n.id], ctx=n.ctx), n)
                            return n
                    dc.key, dc.value = _R().visit(dc.key), _R().visit(dc.value)
                    g.target = _R().visit(g.target)
                    g.ifs = [_R().visit(c) for c in g.ifs]
                    q = st.value.args[0]
                    dflt = st.value.args[1] if len(st.value.args) == 2 else ast.Constant(value=None)
                    pre: List[ast.stmt] = []
                    if not isinstance(q, (ast.Name, ast.Constant)):
                        qn = f'_q_{dname}'
                        pre.append(ast.Assign(targets=[ast.Name(id=qn, ctx=ast.Store())], value=q))
                        dflt = _Subst({}).visit(copy.deepcopy(dflt))
                        if ast.dump(dflt) == ast.dump(q):
                            dflt = ast.Name(id=qn, ctx=ast.Load())
                        q = ast.Name(id=qn, ctx=ast.Load())
                    pre.append(ast.Assign(targets=[copy.deepcopy(st.targets[0])], value=dflt))
                    test: ast.AST = ast.Compare(left=dc.key, ops=[ast.Eq()], comparators=[copy.deepcopy(q)])
                    if g.ifs:
                        test = ast.BoolOp(op=ast.And(), values=list(g.ifs) + [test])
                    hit = ast.Assign(targets=[copy.deepcopy(st.targets[0])], value=dc.value)
                    loop = ast.For(target=g.target, iter=g.iter, body=[ast.If(test=test, body=[hit], orelse=[])], orelse=[])
                    for nd in pre + [loop]:
                        for x in ast.walk(nd):
                            if not hasattr(x, 'lineno'):
                                ast.copy_location(x, st)
                        ast.copy_location(nd, st)
                    del out[k_]
                    out.extend(pre)
                    out.append(loop)
                    i += 1
                    continue
            # D10a: V = Counter(E for x in IT if C)   ->   V = {} ; for x in IT: if C: V[E] = V.get(E, 0) + 1
            if isinstance(st, ast.Assign) and len(st.targets) == 1 and isinstance(st.targets[0], ast.Name) and isinstance(st.value, ast.Call) \
                    and norm_name(st.value.func) == 'Counter' and len(st.value.args) == 1 and not st.value.keywords \
                    and isinstance(st.value.args[0], (ast.GeneratorExp, ast.ListComp)) and len(st.value.args[0].generators) == 1:
                ge = st.value.args[0]
                g = ge.generators[0]
                v = st.targets[0].id
                key = ge.elt
                inc = ast.Assign(targets=[ast.Subscript(value=ast.Name(id=v, ctx=ast.Load()), slice=copy.deepcopy(key), ctx=ast.Store())],
                                 value=ast.BinOp(left=ast.Call(func=ast.Attribute(value=ast.Name(id=v, ctx=ast.Load()), attr='get', ctx=ast.Load()),
                                                               args=[copy.deepcopy(key), ast.Constant(value=0)], keywords=[]), op=ast.Add(), right=ast.Constant(value=1)))
                inner: List[ast.stmt] = [inc]
                for c in reversed(g.ifs):
                    inner = [ast.If(test=c, body=inner, orelse=[])]
                loop = ast.For(target=g.target, iter=g.iter, body=inner, orelse=[])
                init = ast.Assign(targets=[ast.Name(id=v, ctx=ast.Store())], value=ast.Dict(keys=[], values=[]))
                for nd in (init, loop):
                    for x in ast.walk(nd):
                        if not hasattr(x, 'lineno'):
                            ast.copy_location(x, st)
                    ast.copy_location(nd, st)
                # a Counter answers 0 for a key it has not seen: later reads `V[k]` are `V.get(k, 0)` on the plain dict
                if getattr(self, 'stores', None) is not None and self.stores.get(v, 0) == 1:
                    class _CounterReads(ast.NodeTransformer):
                        def visit_Subscript(self_, n):
                            self_.generic_visit(n)
                            if isinstance(n.ctx, ast.Load) and isinstance(n.value, ast.Name) and n.value.id == v:
                                call = ast.Call(func=ast.Attribute(value=n.value, attr='get', ctx=ast.Load()), args=[n.slice, ast.Constant(value=0)], keywords=[])
                                for x in ast.walk(call):
                                    if not hasattr(x, 'lineno'):
                                        ast.copy_location(x, n)
                                return ast.copy_location(call, n)
                            return n
                    body[i + 1:] = [_CounterReads().visit(b) for b in body[i + 1:]]
                body[i:i + 1] = [init, loop]
                continue
            # D10c: for x in (E(y) for y in IT if P): BODY   ->   for y in IT: if P: x = E(y) ; BODY        (a pure filter keeps x as the loop variable)
            if isinstance(st, ast.For) and isinstance(st.iter, (ast.GeneratorExp, ast.ListComp)) and isinstance(st.target, ast.Name) and not st.orelse \
                    and len(st.iter.generators) == 1 and isinstance(st.iter.generators[0].target, ast.Name) and _eager_fusable(st.iter, st.body):
                g = st.iter.generators[0]
                gv = g.target.id
                if isinstance(st.iter.elt, ast.Name) and st.iter.elt.id == gv:
                    ren = _Subst({gv: ast.Name(id=st.target.id, ctx=ast.Load())})
                    inner_c: List[ast.stmt] = list(st.body)
                    for cnd in reversed(g.ifs):
                        inner_c = [ast.If(test=ren.visit(copy.deepcopy(cnd)), body=inner_c, orelse=[])]
                    loop = ast.For(target=st.target, iter=g.iter, body=inner_c, orelse=[])
                else:
                    bind = ast.Assign(targets=[ast.Name(id=st.target.id, ctx=ast.Store())], value=st.iter.elt)
                    inner_c = [bind] + list(st.body)
                    for cnd in reversed(g.ifs):
                        inner_c = [ast.If(test=cnd, body=inner_c, orelse=[])]
                    loop = ast.For(target=g.target, iter=g.iter, body=inner_c, orelse=[])
                for x in ast.walk(loop):
                    if not hasattr(x, 'lineno'):
                        ast.copy_location(x, st)
                ast.copy_location(loop, st)
                ast.fix_missing_locations(loop)
                body[i] = loop
                continue
            # D10b: G = (E for y in IT) ; ... for x in G: BODY   (G used only there)   ->   for y in IT: x = E ; BODY
            if isinstance(st, ast.For) and isinstance(st.iter, ast.Name) and isinstance(st.target, ast.Name) and not st.orelse and getattr(self, 'loads', None) is not None \
                    and self.loads.get(st.iter.id, 0) == 1 and self.stores.get(st.iter.id, 0) == 1:
                gdef = [(k_, o) for k_, o in enumerate(out) if isinstance(o, ast.Assign) and len(o.targets) == 1 and isinstance(o.targets[0], ast.Name)
                        and o.targets[0].id == st.iter.id and isinstance(o.value, (ast.GeneratorExp, ast.ListComp)) and len(o.value.generators) == 1]
                if len(gdef) == 1 and _eager_fusable(gdef[0][1].value, st.body):
                    k_, o = gdef[0]
                    g = o.value.generators[0]
                    bind = ast.Assign(targets=[ast.Name(id=st.target.id, ctx=ast.Store())], value=o.value.elt)
                    inner_: List[ast.stmt] = [bind] + list(st.body)
                    for cnd in reversed(g.ifs):
                        inner_ = [ast.If(test=cnd, body=inner_, orelse=[])]
                    loop = ast.For(target=g.target, iter=g.iter, body=inner_, orelse=[])
                    for x in ast.walk(bind):
                        if not hasattr(x, 'lineno'):
                            ast.copy_location(x, st)
                    ast.copy_location(bind, st)
                    ast.copy_location(loop, st)
                    del out[k_]
                    out.append(loop)
                    i += 1
                    continue
            # D3e: for a, b in TABLE: if TEST: BODY; break  [else: ELSE]   ->   if TEST(row1): BODY(row1) elif TEST(row2): ... else: ELSE
            if isinstance(st, ast.For) and isinstance(st.target, (ast.Tuple, ast.Name)) and len(st.body) == 1 and isinstance(st.body[0], ast.If) \
                    and not st.body[0].orelse and st.body[0].body and isinstance(st.body[0].body[-1], ast.Break) \
                    and not any(isinstance(x, (ast.Break, ast.Continue)) for b in st.body[0].body[:-1] for x in ast.walk(b)) \
                    and not any(isinstance(x, (ast.Break, ast.Continue)) for b in st.orelse for x in ast.walk(b)):
                names = [t.id for t in st.target.elts] if isinstance(st.target, ast.Tuple) and all(isinstance(t, ast.Name) for t in st.target.elts) else None
                rows = self._rows(st.iter, local_tables) if names else None
                if names is None and isinstance(st.target, ast.Name) and self._cells(st.iter) is not None:
                    names, rows = [st.target.id], [[c] for c in self._cells(st.iter)]
                stored_in_body = {x.id for b in st.body for x in ast.walk(b) if isinstance(x, ast.Name) and isinstance(x.ctx, ast.Store)}
                if rows and names and len(names) == len(rows[0]) and not (set(names) & stored_in_body):
                    chain: List[ast.stmt] = list(st.orelse)
                    for row in reversed(rows):
                        m = dict(zip(names, row))
                        inner = st.body[0]
                        node_ = ast.If(test=_Subst(m).visit(copy.deepcopy(inner.test)),
                                       body=[_Subst(m).visit(copy.deepcopy(b)) for b in inner.body[:-1]] or [ast.Pass()], orelse=chain)
                        for x in ast.walk(node_):
                            if not hasattr(x, 'lineno'):
                                ast.copy_location(x, st)
                        ast.copy_location(node_, st)
                        chain = [node_]
                    out.extend(chain)
                    i += 1
                    continue
            # D3: for a, b in TABLE: body   ->  unrolled copies
            if isinstance(st, ast.For) and not st.orelse and isinstance(st.iter, (ast.Name, ast.Tuple, ast.List, ast.Attribute)) and isinstance(st.target, (ast.Tuple, ast.Name)):
                rows = self._rows(st.iter, local_tables)
                if rows is not None and not any(isinstance(x, (ast.Break, ast.Continue)) for b in st.body for x in ast.walk(b)):
                    names = [t.id for t in st.target.elts] if isinstance(st.target, ast.Tuple) and all(isinstance(t, ast.Name) for t in st.target.elts) else None
                    if names and len(names) == len(rows[0]):
                        for row in rows:
                            m = dict(zip(names, row))
                            for b in st.body:
                                nb = _Subst(m).visit(copy.deepcopy(b))
                                ast.copy_location(nb, st)
                                out.append(nb)
                        i += 1
                        continue
            # D3c: L = [E for a, b in TABLE if C]   ->   L = [] ; per row: if C: L.append(E)      (TABLE a literal table, also a local one)
            if isinstance(st, ast.Assign) and len(st.targets) == 1 and isinstance(st.targets[0], ast.Name) and isinstance(st.value, ast.ListComp) \
                    and len(st.value.generators) == 1 and not st.value.generators[0].is_async:
                lc = st.value
                g = lc.generators[0]
                rows = self._rows(g.iter, local_tables)
                names = [t.id for t in g.target.elts] if isinstance(g.target, ast.Tuple) and all(isinstance(t, ast.Name) for t in g.target.elts) else None
                if rows is not None and names and len(names) == len(rows[0]) and len(rows) <= 8:
                    v = st.targets[0].id
                    init = ast.Assign(targets=[ast.Name(id=v, ctx=ast.Store())], value=ast.List(elts=[], ctx=ast.Load()))
                    new_nodes: List[ast.stmt] = [init]
                    for row in rows:
                        m = dict(zip(names, row))
                        app = ast.Expr(value=ast.Call(func=ast.Attribute(value=ast.Name(id=v, ctx=ast.Load()), attr='append', ctx=ast.Load()),
                                                      args=[_Subst(m).visit(copy.deepcopy(lc.elt))], keywords=[]))
                        node_: ast.stmt = app
                        if g.ifs:
                            test = None
                            for c in g.ifs:
                                cc = _Subst(m).visit(copy.deepcopy(c))
                                test = cc if test is None else ast.BoolOp(op=ast.And(), values=[test, cc])
                            node_ = ast.If(test=test, body=[app], orelse=[])
                        new_nodes.append(node_)
                    for nd in new_nodes:
                        for x in ast.walk(nd):
                            if not hasattr(x, 'lineno'):
                                ast.copy_location(x, st)
                        ast.copy_location(nd, st)
                    out.extend(new_nodes)
                    i += 1
                    continue
            # D3b: X.extend(E for a, b in TABLE if C)  ->  per row: if C: X.append(E)
            if isinstance(st, ast.Expr) and isinstance(st.value, ast.Call) and isinstance(st.value.func, ast.Attribute) and st.value.func.attr == 'extend' \
                    and len(st.value.args) == 1 and isinstance(st.value.args[0], (ast.GeneratorExp, ast.ListComp)) and len(st.value.args[0].generators) == 1:
                ge = st.value.args[0]
                g = ge.generators[0]
                rows = self._rows(g.iter, local_tables)
                names = [t.id for t in g.target.elts] if isinstance(g.target, ast.Tuple) and all(isinstance(t, ast.Name) for t in g.target.elts) else None
                if rows is not None and names and len(names) == len(rows[0]):
                    for row in rows:
                        m = dict(zip(names, row))
                        app = ast.Expr(value=ast.Call(func=ast.Attribute(value=copy.deepcopy(st.value.func.value), attr='append', ctx=ast.Load()),
                                                      args=[_Subst(m).visit(copy.deepcopy(ge.elt))], keywords=[]))
                        node: ast.stmt = app
                        if g.ifs:
                            test = None
                            for c in g.ifs:
                                cc = _Subst(m).visit(copy.deepcopy(c))
                                test = cc if test is None else ast.BoolOp(op=ast.And(), values=[test, cc])
                            node = ast.If(test=test, body=[app], orelse=[])
                        for x in ast.walk(node):
                            ast.copy_location(x, st)
                        out.append(node)
                    i += 1
                    continue
            # D3g: X.update((K, V) for a, b in TABLE if C)  ->  per row: if C: X[K] = V
            if isinstance(st, ast.Expr) and isinstance(st.value, ast.Call) and isinstance(st.value.func, ast.Attribute) and st.value.func.attr == 'update' \
                    and len(st.value.args) == 1 and not st.value.keywords and isinstance(st.value.args[0], (ast.GeneratorExp, ast.ListComp)) \
                    and len(st.value.args[0].generators) == 1 and isinstance(st.value.args[0].elt, ast.Tuple) and len(st.value.args[0].elt.elts) == 2 \
                    and isinstance(st.value.func.value, (ast.Name, ast.Attribute)):
                ge = st.value.args[0]
                g = ge.generators[0]
                rows = self._rows(g.iter, local_tables)
                names = [t.id for t in g.target.elts] if isinstance(g.target, ast.Tuple) and all(isinstance(t, ast.Name) for t in g.target.elts) else None
                if rows is not None and names and len(names) == len(rows[0]):
                    for row in rows:
                        m = dict(zip(names, row))
                        store = ast.Assign(targets=[ast.Subscript(value=copy.deepcopy(st.value.func.value), slice=_Subst(m).visit(copy.deepcopy(ge.elt.elts[0])), ctx=ast.Store())],
                                           value=_Subst(m).visit(copy.deepcopy(ge.elt.elts[1])))
                        node = store
                        if g.ifs:
                            test = None
                            for c in g.ifs:
                                cc = _Subst(m).visit(copy.deepcopy(c))
                                test = cc if test is None else ast.BoolOp(op=ast.And(), values=[test, cc])
                            node = ast.If(test=test, body=[store], orelse=[])
                        for x in ast.walk(node):
                            ast.copy_location(x, st)
                        ast.fix_missing_locations(node)
                        out.append(node)
                    i += 1
                    continue
            # D1a: g = (E for T in C if P) ; v = next(g, None)   (g used only there)   ->   v = next((E for T in C if P), None)
            if isinstance(st, ast.Assign) and len(st.targets) == 1 and isinstance(st.value, ast.Call) and isinstance(st.value.func, ast.Name) and st.value.func.id == 'next' \
                    and len(st.value.args) == 2 and isinstance(st.value.args[0], ast.Name) and getattr(self, 'loads', None) is not None \
                    and self.loads.get(st.value.args[0].id, 0) == 1 and self.stores.get(st.value.args[0].id, 0) == 1 and out \
                    and isinstance(out[-1], ast.Assign) and len(out[-1].targets) == 1 and isinstance(out[-1].targets[0], ast.Name) \
                    and out[-1].targets[0].id == st.value.args[0].id and isinstance(out[-1].value, ast.GeneratorExp):
                st.value.args[0] = out[-1].value
                out.pop()
            # D1b: for x in IT: if P: v = E; break  else: v = None ; if v is [not] None: A else: B
            #        ->  for x in IT: if P: v = E; <found branch>; break  else: <missing branch>           (the found branch has no break/continue of its own; E is the loop variable)
            if isinstance(st, ast.For) and len(st.orelse) == 1 and isinstance(st.orelse[0], ast.Assign) and len(st.orelse[0].targets) == 1 \
                    and isinstance(st.orelse[0].targets[0], ast.Name) and isinstance(st.orelse[0].value, ast.Constant) and st.orelse[0].value.value is None \
                    and len(st.body) == 1 and isinstance(st.body[0], ast.If) and not st.body[0].orelse and len(st.body[0].body) == 2 \
                    and isinstance(st.body[0].body[0], ast.Assign) and isinstance(st.body[0].body[1], ast.Break) and len(st.body[0].body[0].targets) == 1 \
                    and isinstance(st.body[0].body[0].targets[0], ast.Name) and st.body[0].body[0].targets[0].id == st.orelse[0].targets[0].id \
                    and isinstance(st.body[0].body[0].value, ast.Name) and isinstance(st.target, ast.Name) and st.body[0].body[0].value.id == st.target.id \
                    and isinstance(nxt, ast.If) and isinstance(nxt.test, ast.Compare) and len(nxt.test.ops) == 1 and isinstance(nxt.test.ops[0], (ast.Is, ast.IsNot)) \
                    and isinstance(nxt.test.left, ast.Name) and nxt.test.left.id == st.orelse[0].targets[0].id and isinstance(nxt.test.comparators[0], ast.Constant) \
                    and nxt.test.comparators[0].value is None:
                vname = st.orelse[0].targets[0].id
                nvis = self.visit(nxt)
                if isinstance(nvis, ast.If) and isinstance(nvis.test, ast.Compare):
                    missing, found = (nvis.body, nvis.orelse) if isinstance(nvis.test.ops[0], ast.Is) else (nvis.orelse, nvis.body)
                    later_reads = any(isinstance(x, ast.Name) and x.id == vname for s_ in body[i + 2:] for x in ast.walk(s_))
                    if not any(isinstance(x, (ast.Break, ast.Continue)) for b_ in found for x in ast.walk(b_)) and not later_reads:
                        st.body[0].body[1:1] = found
                        st.orelse = list(missing)
                        out.append(st)
                        i += 2
                        continue
            # D1: v = next((E for T in C if P), None) ; if v is None: RAISE   ->  for T in C: if P: v = E; break  else: RAISE
            if isinstance(st, ast.Assign) and len(st.targets) == 1 and isinstance(st.targets[0], ast.Name) and isinstance(st.value, ast.Call) \
                    and isinstance(st.value.func, ast.Name) and st.value.func.id == 'next' and len(st.value.args) == 2 \
                    and isinstance(st.value.args[0], ast.GeneratorExp) and len(st.value.args[0].generators) == 1 \
                    and isinstance(st.value.args[1], ast.Constant) and st.value.args[1].value is None:
                v = st.targets[0].id
                ge = copy.deepcopy(st.value.args[0])
                g = ge.generators[0]
                # the generator's own variables must not collide with the function's names once they become loop variables
                gnames = {x.id for x in ast.walk(g.target) if isinstance(x, ast.Name)}
                if v in gnames or (getattr(self, 'stores', None) is not None and any(self.stores.get(nm, 0) > 1 for nm in gnames)):
                    ren_ = {nm: f'_{nm}_it' for nm in gnames}

                    class _Rg(ast.NodeTransformer):
                        def visit_Name(self_, n):
                            return ast.copy_location(ast.Name(id=ren_[n.id], ctx=n.ctx), n) if n.id in ren_ else n
                    ge.elt = _Rg().visit(ge.elt)
                    g.target = _Rg().visit(g.target)
                    g.ifs = [_Rg().visit(c) for c in g.ifs]
                assign = ast.Assign(targets=[ast.Name(id=v, ctx=ast.Store())], value=ge.elt)
                inner: List[ast.stmt] = [assign, ast.Break()]
                test: Optional[ast.AST] = None
                for c in g.ifs:
                    test = c if test is None else ast.BoolOp(op=ast.And(), values=[test, c])
                loop_body: List[ast.stmt] = [ast.If(test=test, body=inner, orelse=[])] if test is not None else inner
                loop = ast.For(target=g.target, iter=g.iter, body=loop_body, orelse=[])
                consumed = False
                if isinstance(nxt, ast.If) and isinstance(nxt.test, ast.Compare) and len(nxt.test.ops) == 1 and isinstance(nxt.test.comparators[0], ast.Constant) \
                        and nxt.test.comparators[0].value is None and isinstance(nxt.test.left, ast.Name) and nxt.test.left.id == v:
                    nvis = self.visit(nxt)
                    if isinstance(nxt.test.ops[0], ast.Is) and not nvis.orelse:
                        loop.orelse = nvis.body
                        consumed = True
                    elif isinstance(nxt.test.ops[0], ast.IsNot) and not nvis.orelse:
                        # if v is not None: USE   ->  the use happens where the match is found
                        inner[1:1] = nvis.body
                        consumed = True
                    elif nvis.orelse and isinstance(nvis.test, ast.Compare) and isinstance(nvis.test.ops[0], (ast.Is, ast.IsNot)):
                        # if v is None: MISSING else: USE   ->   USE where the match is found, MISSING in the loop's else   (USE has no break/continue of its own)
                        missing, use = (nvis.body, nvis.orelse) if isinstance(nvis.test.ops[0], ast.Is) else (nvis.orelse, nvis.body)
                        if not any(isinstance(x, (ast.Break, ast.Continue)) for b_ in use for x in ast.walk(b_)) and isinstance(ge.elt, ast.Name):
                            inner[1:1] = use
                            loop.orelse = missing
                            consumed = True
                if not consumed:
                    init = ast.Assign(targets=[ast.Name(id=v, ctx=ast.Store())], value=ast.Constant(value=None))
                    out.append(ast.copy_location(init, st))
                for x in ast.walk(loop):
                    ast.copy_location(x, st)
                out.append(loop)
                i += 2 if consumed else 1
                continue
            # annotated empty containers (`xs: List[str] = []`) take part in D5/D6 like plain assignments
            if isinstance(st, ast.AnnAssign) and isinstance(st.target, ast.Name) and st.value is not None and isinstance(st.value, (ast.List, ast.Dict)) \
                    and not (st.value.elts if isinstance(st.value, ast.List) else st.value.keys) and isinstance(nxt, ast.For):
                st = ast.copy_location(ast.Assign(targets=[st.target], value=st.value), st)
            # D6: L = [] ; for x in C: [if P:] L.append(E)   ->   L = [E for x in C if P]
            if isinstance(st, ast.Assign) and len(st.targets) == 1 and isinstance(st.targets[0], ast.Name) and isinstance(st.value, ast.List) and not st.value.elts \
                    and isinstance(nxt, ast.For) and not nxt.orelse and len(nxt.body) == 1 \
                    and not any(isinstance(x, ast.Name) and x.id == st.targets[0].id for x in ast.walk(nxt.iter)):
                inner = nxt.body[0]
                conds = []
                while isinstance(inner, ast.If) and not inner.orelse and len(inner.body) == 1:
                    conds.append(inner.test)
                    inner = inner.body[0]
                L = st.targets[0].id
                if isinstance(inner, ast.Expr) and isinstance(inner.value, ast.Call) and isinstance(inner.value.func, ast.Attribute) and inner.value.func.attr == 'append' \
                        and isinstance(inner.value.func.value, ast.Name) and inner.value.func.value.id == L and len(inner.value.args) == 1 and not inner.value.keywords \
                        and not any(isinstance(x, ast.Name) and x.id == L for c_ in conds + [inner.value.args[0]] for x in ast.walk(c_)):
                    tgt = copy.deepcopy(nxt.target)
                    comp = ast.ListComp(elt=inner.value.args[0], generators=[ast.comprehension(target=tgt, iter=nxt.iter, ifs=conds, is_async=0)])
                    na = ast.Assign(targets=st.targets, value=comp)
                    for x in ast.walk(na):
                        if not hasattr(x, 'lineno'):
                            ast.copy_location(x, st)
                    out.append(ast.copy_location(na, st))
                    i += 2
                    continue
            # D5: d = {} ; for k, v in X: d[k] = v   ->   d = {k: v for k, v in X}
            if isinstance(st, ast.Assign) and len(st.targets) == 1 and isinstance(st.targets[0], ast.Name) and isinstance(st.value, ast.Dict) and not st.value.keys \
                    and isinstance(nxt, ast.For) and not nxt.orelse and len(nxt.body) == 1 and isinstance(nxt.body[0], ast.Assign) \
                    and len(nxt.body[0].targets) == 1 and isinstance(nxt.body[0].targets[0], ast.Subscript) \
                    and isinstance(nxt.body[0].targets[0].value, ast.Name) and nxt.body[0].targets[0].value.id == st.targets[0].id \
                    and isinstance(nxt.target, ast.Tuple) and len(nxt.target.elts) == 2 and all(isinstance(e, ast.Name) for e in nxt.target.elts) \
                    and not any(isinstance(x, ast.Name) and x.id == st.targets[0].id for x in ast.walk(nxt.iter)):
                k_, v_ = nxt.body[0].targets[0].slice, nxt.body[0].value
                comp = ast.DictComp(key=k_, value=v_, generators=[ast.comprehension(target=copy.deepcopy(nxt.target), iter=nxt.iter, ifs=[], is_async=0)])
                for x in ast.walk(comp.generators[0].target):
                    if hasattr(x, 'ctx'):
                        x.ctx = ast.Store()
                na = ast.Assign(targets=st.targets, value=comp)
                for x in ast.walk(na):
                    if not hasattr(x, 'lineno'):
                        ast.copy_location(x, st)
                out.append(ast.copy_location(na, st))
                i += 2
                continue
            # D4: if T: v = A  else: v = B   (A, B plain names / constants)  ->  v = A if T else B
            def _simple_value(v_):
                if isinstance(v_, (ast.Name, ast.Constant)):
                    return True
                if isinstance(v_, ast.Attribute):
                    return _simple_value(v_.value)
                if isinstance(v_, ast.Subscript):
                    return _simple_value(v_.value) and _simple_value(v_.slice)
                return False
            if isinstance(st, ast.If) and len(st.body) == 1 and len(st.orelse) == 1 and all(
                    isinstance(x, ast.Assign) and len(x.targets) == 1 and isinstance(x.targets[0], ast.Name) and _simple_value(x.value)
                    for x in (st.body[0], st.orelse[0])) and st.body[0].targets[0].id == st.orelse[0].targets[0].id \
                    and (all(isinstance(x.value, (ast.Name, ast.Constant)) for x in (st.body[0], st.orelse[0])) or _is_lookup_with_default(st.test, st.body[0].value)):
                na = ast.Assign(targets=[ast.Name(id=st.body[0].targets[0].id, ctx=ast.Store())],
                                value=ast.IfExp(test=st.test, body=st.body[0].value, orelse=st.orelse[0].value))
                for x in ast.walk(na):
                    if not hasattr(x, 'lineno'):
                        ast.copy_location(x, st)
                out.append(ast.copy_location(na, st))
                i += 1
                continue
            # D2: if [not] any(P for T in C): BODY
            if isinstance(st, ast.If) and not st.orelse:
                t = st.test
                neg = False
                if isinstance(t, ast.UnaryOp) and isinstance(t.op, ast.Not):
                    t, neg = t.operand, True
                if isinstance(t, ast.Call) and isinstance(t.func, ast.Name) and t.func.id == 'any' and len(t.args) == 1 \
                        and isinstance(t.args[0], ast.GeneratorExp) and len(t.args[0].generators) == 1:
                    ge = t.args[0]
                    g = ge.generators[0]
                    cond = ge.elt
                    for c in g.ifs:
                        cond = ast.BoolOp(op=ast.And(), values=[c, cond])
                    if neg:
                        loop = ast.For(target=g.target, iter=g.iter, body=[ast.If(test=cond, body=[ast.Break()], orelse=[])], orelse=st.body)
                    else:
                        if not all(isinstance(b, ast.Raise) for b in st.body):
                            out.append(st)
                            i += 1
                            continue
                        loop = ast.For(target=g.target, iter=g.iter, body=[ast.If(test=cond, body=st.body, orelse=[])], orelse=[])
                    for x in ast.walk(loop):
                        if not hasattr(x, 'lineno'):
                            ast.copy_location(x, st)
                    ast.copy_location(loop, st)
                    out.append(loop)
                    i += 1
                    continue
            out.append(st)
            i += 1
        return out

    @staticmethod
    def _continue_guards(body: List[ast.stmt]) -> List[ast.stmt]:
        """In a loop body: `if P: continue` followed by REST  ->  `if not P: REST`."""
        for k, st in enumerate(body):
            if isinstance(st, ast.If) and not st.orelse and len(st.body) == 1 and isinstance(st.body[0], ast.Continue) and k + 1 < len(body):
                rest = Desugar._continue_guards(body[k + 1:])
                ni = ast.If(test=negate(st.test), body=rest, orelse=[])
                ast.copy_location(ni, st)
                return body[:k] + [ni]
        return body

    def generic_visit(self, node):
        if isinstance(node, (ast.For, ast.While)) and node.body:
            node.body = self._continue_guards(list(node.body))
        for fld in ('body', 'orelse', 'finalbody'):
            b = getattr(node, fld, None)
            if isinstance(b, list) and b and isinstance(b[0], ast.stmt):
                setattr(node, fld, self._body(b))
        for h in getattr(node, 'handlers', []) or []:
            h.body = self._body(h.body)
        return node


def desugar(tree: ast.Module) -> ast.Module:
    tables = {}
    for st in tree.body:
        if isinstance(st, ast.Assign) and len(st.targets) == 1 and isinstance(st.targets[0], ast.Name):
            rows = _literal_table(st.value)
            if rows is not None:
                tables[st.targets[0].id] = rows
            drows = _dict_rows(st.value)
            if drows is not None:
                tables[st.targets[0].id + '.items()'] = drows
        if isinstance(st, ast.AnnAssign) and isinstance(st.target, ast.Name) and st.value is not None:
            rows = _literal_table(st.value)
            if rows is not None:
                tables[st.target.id] = rows
            drows = _dict_rows(st.value)
            if drows is not None:
                tables[st.target.id + '.items()'] = drows
        if isinstance(st, ast.ClassDef):
            for s2 in st.body:
                if isinstance(s2, ast.Assign) and len(s2.targets) == 1 and isinstance(s2.targets[0], ast.Name):
                    rows = _literal_table(s2.value)
                    if rows is not None:
                        tables[s2.targets[0].id] = rows
    d = Desugar(tables, [st.name for st in tree.body if isinstance(st, ast.ClassDef)])
    # module-level names bound once to a string literal (templates, keywords)
    mstores = {}
    for st in tree.body:
        for x in ast.walk(st) if not isinstance(st, (ast.FunctionDef, ast.ClassDef)) else []:
            if isinstance(x, ast.Name) and isinstance(x.ctx, ast.Store):
                mstores[x.id] = mstores.get(x.id, 0) + 1
    d.module_strs = {st.targets[0].id: st.value.value for st in tree.body
                     if isinstance(st, ast.Assign) and len(st.targets) == 1 and isinstance(st.targets[0], ast.Name) and isinstance(st.value, ast.Constant)
                     and isinstance(st.value.value, str) and mstores.get(st.targets[0].id) == 1}
    tree.body = d._body(tree.body)
    # getattr(x, 'const') and immediately applied lambdas everywhere
    tree = _Subst({}).visit(tree)
    ast.fix_missing_locations(tree)
    return tree


def propagate_module_strings(tree: ast.AST) -> ast.AST:
    """A module-level name bound exactly once to a string literal (a keyword, a template, an encoding name hoisted into a constant) is read as that
    literal inside the module's functions - unless the function has a parameter/local of the same name."""
    if not isinstance(tree, ast.Module):
        return tree
    counts = {}
    vals = {}
    for st in tree.body:
        if isinstance(st, (ast.FunctionDef, ast.AsyncFunctionDef, ast.ClassDef)):
            continue
        for x in ast.walk(st):
            if isinstance(x, ast.Name) and isinstance(x.ctx, (ast.Store, ast.Del)):
                counts[x.id] = counts.get(x.id, 0) + 1
        if isinstance(st, ast.Assign) and len(st.targets) == 1 and isinstance(st.targets[0], ast.Name) and isinstance(st.value, ast.Constant) and isinstance(st.value.value, str):
            vals[st.targets[0].id] = st.value
    # names rebound by `global` statements anywhere are left alone
    for x in ast.walk(tree):
        if isinstance(x, ast.Global):
            for nm in x.names:
                counts[nm] = counts.get(nm, 0) + 2
    consts = {k: v for k, v in vals.items() if counts.get(k) == 1}
    if not consts:
        return tree

    class Sub(ast.NodeTransformer):
        def __init__(self, shadow):
            self.shadow = shadow

        def visit_Name(self, node):
            if isinstance(node.ctx, ast.Load) and node.id in consts and node.id not in self.shadow:
                return ast.copy_location(ast.Constant(value=consts[node.id].value), node)
            return node

        def visit_FunctionDef(self, node):
            a = node.args
            shadow = set(self.shadow) | {x.arg for x in a.args + a.kwonlyargs + a.posonlyargs}
            if a.vararg:
                shadow.add(a.vararg.arg)
            if a.kwarg:
                shadow.add(a.kwarg.arg)
            shadow |= {x.id for x in ast.walk(node) if isinstance(x, ast.Name) and isinstance(x.ctx, (ast.Store, ast.Del))}
            inner = Sub(shadow)
            node.body = [inner.visit(b) for b in node.body]
            return node
        visit_AsyncFunctionDef = visit_FunctionDef

    top = Sub(set())
    for st in ast.walk(tree):
        pass
    new_body = []
    for st in tree.body:
        if isinstance(st, (ast.FunctionDef, ast.AsyncFunctionDef)):
            new_body.append(top.visit_FunctionDef(st))
        elif isinstance(st, ast.ClassDef):
            st.body = [top.visit_FunctionDef(b) if isinstance(b, (ast.FunctionDef, ast.AsyncFunctionDef)) else b for b in st.body]
            new_body.append(st)
        else:
            new_body.append(st)
    tree.body = new_body
    return tree


class _MatchToIf(ast.NodeTransformer):
    """`match SUBJECT:` with class patterns `C()` / `C(attr=V)`, value patterns (literals, dotted constants), or-patterns and a final wildcard, on a side-effect
    free subject  ->  the equivalent if/elif/else chain.  Anything else (captures, sequences, mappings, guards with captures) is left as it is."""
    def visit_Match(self, node):
        self.generic_visit(node)
        subj = node.subject
        if not _pure_cell(subj) or isinstance(subj, (ast.BoolOp, ast.Compare, ast.UnaryOp, ast.Lambda)):
            return node
        import copy

        def test_of(pat) -> Optional[ast.AST]:
            if isinstance(pat, ast.MatchValue):
                return ast.Compare(left=copy.deepcopy(subj), ops=[ast.Eq()], comparators=[pat.value])
            if isinstance(pat, ast.MatchSingleton):
                return ast.Compare(left=copy.deepcopy(subj), ops=[ast.Is()], comparators=[ast.Constant(value=pat.value)])
            if isinstance(pat, ast.MatchClass) and not pat.patterns:
                t = ast.Call(func=ast.Name(id='isinstance', ctx=ast.Load()), args=[copy.deepcopy(subj), pat.cls], keywords=[])
                parts = [t]
                for a, kp in zip(pat.kwd_attrs, pat.kwd_patterns):
                    if isinstance(kp, ast.MatchValue):
                        parts.append(ast.Compare(left=ast.Attribute(value=copy.deepcopy(subj), attr=a, ctx=ast.Load()), ops=[ast.Eq()], comparators=[kp.value]))
                    elif isinstance(kp, ast.MatchSingleton):
                        parts.append(ast.Compare(left=ast.Attribute(value=copy.deepcopy(subj), attr=a, ctx=ast.Load()), ops=[ast.Is()], comparators=[ast.Constant(value=kp.value)]))
                    else:
                        return None
                return parts[0] if len(parts) == 1 else ast.BoolOp(op=ast.And(), values=parts)
            if isinstance(pat, ast.MatchOr):
                ts = [test_of(x) for x in pat.patterns]
                if any(t is None for t in ts):
                    return None
                return ast.BoolOp(op=ast.Or(), values=ts)
            return None
        chain: Optional[List[ast.stmt]] = None
        cases = list(node.cases)
        tail: List[ast.stmt] = []
        if cases and isinstance(cases[-1].pattern, ast.MatchAs) and cases[-1].pattern.pattern is None and cases[-1].guard is None:
            tail = list(cases[-1].body)
            if cases[-1].pattern.name is not None:
                # `case name:` binds the subject and always matches
                tail.insert(0, ast.Assign(targets=[ast.Name(id=cases[-1].pattern.name, ctx=ast.Store())], value=copy.deepcopy(subj)))
            cases = cases[:-1]
        tests = []
        for c in cases:
            pat = c.pattern
            bind = None
            if isinstance(pat, ast.MatchAs) and pat.pattern is not None and pat.name is not None:
                bind, pat = pat.name, pat.pattern            # `case C() as name:`
            t = test_of(pat)
            if t is None:
                return node
            body_ = list(c.body)
            if bind is not None:
                if c.guard is not None and any(isinstance(x, ast.Name) and x.id == bind for x in ast.walk(c.guard)):
                    return node
                body_.insert(0, ast.Assign(targets=[ast.Name(id=bind, ctx=ast.Store())], value=copy.deepcopy(subj)))
            if c.guard is not None:
                t = ast.BoolOp(op=ast.And(), values=[t, c.guard])
            tests.append((t, body_))
        if not tests:
            return node
        orelse = tail
        for t, body in reversed(tests):
            n_ = ast.If(test=t, body=body, orelse=orelse)
            orelse = [n_]
        out = orelse[0]
        for x in ast.walk(out):
            if not hasattr(x, 'lineno'):
                ast.copy_location(x, node)
        return ast.copy_location(out, node)


def alias_paths_nested(tree: ast.AST, computed=frozenset()) -> ast.AST:
    """`v = a.b.c` inside a branch / loop body, v bound only there and read only by the statements that follow it in the same block, a.b.c not re-bound in
    the function: the reads of v become a.b.c (what `match x.y: case C() as v:` leaves behind, or a helper's local after inlining)."""
    for fn in [n for n in ast.walk(tree) if isinstance(n, (ast.FunctionDef, ast.AsyncFunctionDef))]:
        params = {a.arg for a in fn.args.args + fn.args.kwonlyargs + fn.args.posonlyargs}
        if fn.args.vararg:
            params.add(fn.args.vararg.arg)
        if fn.args.kwarg:
            params.add(fn.args.kwarg.arg)
        for _ in range(6):
            stores: dict = {}
            loads: dict = {}
            for x in ast.walk(fn):
                if isinstance(x, ast.Name):
                    d = stores if isinstance(x.ctx, (ast.Store, ast.Del)) else loads
                    d[x.id] = d.get(x.id, 0) + 1
            attr_stores = {x.attr for x in ast.walk(fn) if isinstance(x, ast.Attribute) and isinstance(x.ctx, (ast.Store, ast.Del))}
            nested = {x.id for d in ast.walk(fn) if d is not fn and isinstance(d, (ast.FunctionDef, ast.AsyncFunctionDef, ast.Lambda, ast.ClassDef))
                      for x in ast.walk(d) if isinstance(x, ast.Name)}
            changed = False
            for holder in ast.walk(fn):
                for fld in ('body', 'orelse', 'finalbody'):
                    blk = getattr(holder, fld, None)
                    if not (isinstance(blk, list) and blk and isinstance(blk[0], ast.stmt)):
                        continue
                    in_loop = isinstance(holder, (ast.For, ast.While)) and fld == 'body'
                    for i, st in enumerate(blk):
                        if not (isinstance(st, ast.Assign) and len(st.targets) == 1 and isinstance(st.targets[0], ast.Name)):
                            continue
                        # a display / dict of plain cells that nothing reads any more (a dispatch table that was unrolled)
                        if isinstance(st.value, (ast.Dict, ast.Tuple, ast.List)) and loads.get(st.targets[0].id, 0) == 0 and stores.get(st.targets[0].id, 0) == 1 \
                                and st.targets[0].id not in params and st.targets[0].id not in nested and len(blk) > 1 and (
                                    _dict_rows(st.value) is not None or (isinstance(st.value, (ast.Tuple, ast.List)) and all(_pure_cell(e) or (
                                        isinstance(e, (ast.Tuple, ast.List)) and all(_pure_cell(c) for c in e.elts)) for e in st.value.elts))):
                            del blk[i]
                            changed = True
                            break
                        pth = _attr_path(st.value)
                        if pth is None and isinstance(st.value, ast.Subscript) and isinstance(st.value.value, ast.Name) and isinstance(st.value.slice, ast.Constant) \
                                and isinstance(st.value.slice.value, str) \
                                and not any(isinstance(x, ast.Subscript) and isinstance(x.ctx, (ast.Store, ast.Del)) and isinstance(x.value, ast.Name)
                                            and x.value.id == st.value.value.id for x in ast.walk(fn)):
                            pth = st.value.value.id          # tok['name']: as stable as the name it indexes (no item of it is assigned in the function)
                        if pth is None and isinstance(st.value, ast.Name) and st.value.id != st.targets[0].id and st.value.id not in nested \
                                and not any(isinstance(x, ast.Name) and x.id == st.value.id and isinstance(x.ctx, (ast.Store, ast.Del)) for s_ in blk[i + 1:] for x in ast.walk(s_)):
                            # v = w: a second name for a local that is not re-bound while v is read (the exit assignment of an expanded helper)
                            v = st.targets[0].id
                            later = sum(1 for s_ in blk[i + 1:] for x in ast.walk(s_) if isinstance(x, ast.Name) and x.id == v and isinstance(x.ctx, ast.Load))
                            if v not in params and v not in nested and stores.get(v, 0) == 1 and later and later == loads.get(v, 0):
                                sub = _PathSubst(v, st.value)
                                blk[i + 1:] = [sub.visit(s_) for s_ in blk[i + 1:]]
                                del blk[i]
                                changed = True
                                break
                            continue
                        if pth is None:
                            continue
                        v = st.targets[0].id
                        root, attrs = pth.split('.')[0], pth.split('.')[1:]
                        if v in params or v in nested or stores.get(v, 0) != 1 or v == root:
                            continue
                        if stores.get(root, 0) > (0 if root in params else 1) or any(a in attr_stores for a in attrs) or any(a in computed for a in attrs):
                            continue
                        if stores.get(root, 0) == 1 and root not in params and in_loop:
                            pass
                        later = sum(1 for s_ in blk[i + 1:] for x in ast.walk(s_) if isinstance(x, ast.Name) and x.id == v and isinstance(x.ctx, ast.Load))
                        if loads.get(v, 0) == 0 and len(blk) > 1:
                            del blk[i]              # bound and never read (what is left of an expanded helper's unused parameter)
                            changed = True
                            break
                        if later == 0 or later != loads.get(v, 0):
                            continue
                        sub = _PathSubst(v, st.value)
                        blk[i + 1:] = [sub.visit(s_) for s_ in blk[i + 1:]]
                        del blk[i]
                        changed = True
                        break
                    if changed:
                        break
                if changed:
                    break
            if not changed:
                break
    ast.fix_missing_locations(tree)
    return tree


def split_live_ranges(tree: ast.AST) -> ast.AST:
    """D16: a local that is re-bound by plain assignments at the top level of the function body only (`v = A; use(v); v = B; use(v)`) names a different
    value in each stretch; the later stretches get their own name (`v__2`), so each is a local bound once and the alias rules apply to each."""
    class _Ren(ast.NodeTransformer):
        def __init__(self, old, new):
            self.old, self.new = old, new

        def visit_Name(self, n):
            if n.id == self.old:
                return ast.copy_location(ast.Name(id=self.new, ctx=n.ctx), n)
            return n
    for fn in [n for n in ast.walk(tree) if isinstance(n, (ast.FunctionDef, ast.AsyncFunctionDef))]:
        params = {a.arg for a in fn.args.args + fn.args.kwonlyargs + fn.args.posonlyargs}
        if fn.args.vararg:
            params.add(fn.args.vararg.arg)
        if fn.args.kwarg:
            params.add(fn.args.kwarg.arg)
        nested_names = {x.id for d in ast.walk(fn) if d is not fn and isinstance(d, (ast.FunctionDef, ast.AsyncFunctionDef, ast.Lambda, ast.ClassDef))
                        for x in ast.walk(d) if isinstance(x, ast.Name)}
        declared = {n_ for x in ast.walk(fn) if isinstance(x, (ast.Global, ast.Nonlocal)) for n_ in x.names}
        top = {}
        for i, st in enumerate(fn.body):
            if isinstance(st, ast.Assign) and len(st.targets) == 1 and isinstance(st.targets[0], ast.Name):
                top.setdefault(st.targets[0].id, []).append(i)
        for v, at in top.items():
            if len(at) < 2 or v in params or v in nested_names or v in declared:
                continue
            n_stores = sum(1 for x in ast.walk(fn) if isinstance(x, ast.Name) and x.id == v and isinstance(x.ctx, (ast.Store, ast.Del)))
            if n_stores != len(at):
                continue
            for k, i in enumerate(at[1:], start=2):
                new = f'{v}__{k}'
                end = at[k] if k < len(at) else len(fn.body)
                r = _Ren(v, new)
                st = fn.body[i]
                st.targets = [r.visit(st.targets[0])]           # the right-hand side still reads the previous stretch
                prev = v if k == 2 else f'{v}__{k - 1}'
                if prev != v:
                    st.value = _Ren(v, prev).visit(st.value)
                fn.body[i + 1:end] = [r.visit(s_) for s_ in fn.body[i + 1:end]]
    ast.fix_missing_locations(tree)
    return tree


def inline_test_locals(tree: ast.AST) -> ast.AST:
    """D17: `flag = <comparison / and / or / not over names and literals>` bound once at the top level of a function, the names it reads never re-bound and
    never the receiver of a method call or the target of an item assignment (so the value cannot change under the flag): reads of `flag` become the test
    itself.  Rules then see `'\n' in text` where the code says `multiline`."""
    import copy

    def pure(e) -> bool:
        if isinstance(e, (ast.Name, ast.Constant)):
            return True
        if isinstance(e, ast.Compare):
            return pure(e.left) and all(pure(c) for c in e.comparators)
        if isinstance(e, ast.BoolOp):
            return all(pure(v) for v in e.values)
        if isinstance(e, ast.UnaryOp) and isinstance(e.op, ast.Not):
            return pure(e.operand)
        return False
    for fn in [n for n in ast.walk(tree) if isinstance(n, (ast.FunctionDef, ast.AsyncFunctionDef))]:
        stores = {}
        for x in ast.walk(fn):
            if isinstance(x, ast.Name) and isinstance(x.ctx, (ast.Store, ast.Del)):
                stores[x.id] = stores.get(x.id, 0) + 1
        touched = {x.func.value.id for x in ast.walk(fn) if isinstance(x, ast.Call) and isinstance(x.func, ast.Attribute) and isinstance(x.func.value, ast.Name)}
        touched |= {x.value.id for x in ast.walk(fn) if isinstance(x, ast.Subscript) and isinstance(x.ctx, (ast.Store, ast.Del)) and isinstance(x.value, ast.Name)}
        nested = {x.id for d in ast.walk(fn) if d is not fn and isinstance(d, (ast.FunctionDef, ast.AsyncFunctionDef, ast.Lambda, ast.ClassDef))
                  for x in ast.walk(d) if isinstance(x, ast.Name)}
        i = 0
        while i < len(fn.body):
            st = fn.body[i]
            if isinstance(st, ast.Assign) and len(st.targets) == 1 and isinstance(st.targets[0], ast.Name) and stores.get(st.targets[0].id) == 1 \
                    and isinstance(st.value, (ast.Compare, ast.BoolOp, ast.UnaryOp)) and pure(st.value) and st.targets[0].id not in nested:
                v = st.targets[0].id
                reads = {x.id for x in ast.walk(st.value) if isinstance(x, ast.Name)}
                # a value that may be mutable must not be handed to a call either (the callee could change what `x in v` / `not v` says); parameters annotated
                # with an immutable type and names that are only compared by identity are exempt
                immutable = {a.arg for a in fn.args.args + fn.args.kwonlyargs + fn.args.posonlyargs
                             if a.annotation is not None and ast.unparse(a.annotation) in ('str', 'int', 'bool', 'float', 'bytes', 'Optional[str]', 'Optional[int]', 'Optional[bool]')}
                by_identity = {x.id for c_ in ast.walk(st.value) if isinstance(c_, ast.Compare) and all(isinstance(o, (ast.Is, ast.IsNot)) for o in c_.ops)
                               for x in [c_.left] + c_.comparators if isinstance(x, ast.Name)}
                other = {x.id for c_ in ast.walk(st.value) if not (isinstance(c_, ast.Compare) and all(isinstance(o, (ast.Is, ast.IsNot)) for o in c_.ops))
                         for x in ast.iter_child_nodes(c_) if isinstance(x, ast.Name)}
                handed = {a.id for c_ in ast.walk(fn) if isinstance(c_, ast.Call) for a in list(c_.args) + [k.value for k in c_.keywords] if isinstance(a, ast.Name)}
                risky = {r for r in reads if r in handed and r not in immutable and (r not in by_identity or r in other)}
                if v not in reads and not any(stores.get(r, 0) for r in reads) and not (reads & touched) and not (reads & nested) and not risky:
                    sub = _PathSubst(v, st.value)
                    fn.body[i + 1:] = [sub.visit(s_) for s_ in fn.body[i + 1:]]
                    del fn.body[i]
                    continue
            i += 1
    ast.fix_missing_locations(tree)
    return tree


def canonicalise(tree: ast.AST, computed_attrs=frozenset()) -> ast.AST:
    if any(isinstance(x, ast.Match) for x in ast.walk(tree)):
        tree = _MatchToIf().visit(tree)
        ast.fix_missing_locations(tree)
    tree = Canon().visit(tree)
    ast.fix_missing_locations(tree)
    tree = alias_paths(tree, computed_attrs)
    tree = propagate_module_strings(tree)
    try:
        # repeated to a fixpoint (at most 4 passes): the statements one rewrite produces may be the input of another (unrolled rows that contain `:=`, ...)
        prev = None
        for _ in range(4):
            tree = desugar(tree)
            ast.fix_missing_locations(tree)
            cur = ast.dump(tree)
            if cur == prev:
                break
            prev = cur
    except RecursionError:      # pragma: no cover
        pass
    tree = split_live_ranges(tree)
    tree = alias_paths(tree, computed_attrs)
    tree = alias_paths_nested(tree, computed_attrs)
    tree = inline_test_locals(tree)
    tree = Canon().visit(tree)
    ast.fix_missing_locations(tree)
    return tree
