"""Semantics-preserving canonicalisation of the parsed source, applied once when a module is loaded, so
that rules see ONE spelling of equivalent code:

  * `if not T: A else: B`  ->  `if T: B else: A`   (also for conditional expressions);
  * `not (a == b)` -> `a != b`, `not (a in b)` -> `a not in b`, `not (a is b)` -> `a is not b`, double negation removed;
  * `x == A or x == B or ...` -> `x in (A, B, ...)`, `x != A and x != B` -> `x not in (A, B)`;
  * in `==` / `!=` a constant or ALL_CAPS name on the left moves to the right;
  * `a = a + b` -> `a += b` for plain names.
Positions (lineno/col_offset) are kept from the original nodes."""
from __future__ import annotations

import ast
from typing import List, Optional

NEG = {ast.Eq: ast.NotEq, ast.NotEq: ast.Eq, ast.In: ast.NotIn, ast.NotIn: ast.In, ast.Is: ast.IsNot, ast.IsNot: ast.Is,
       ast.Lt: ast.GtE, ast.GtE: ast.Lt, ast.Gt: ast.LtE, ast.LtE: ast.Gt}


def _src(n: ast.AST) -> str:
    return ast.unparse(n)


def _is_const_like(n: ast.AST) -> bool:
    if isinstance(n, ast.Constant):
        return True
    if isinstance(n, ast.Name) and n.id.isupper():
        return True
    if isinstance(n, (ast.Tuple, ast.List)) and all(_is_const_like(e) for e in n.elts):
        return True
    return False


def negate(e: ast.AST) -> ast.AST:
    if isinstance(e, ast.UnaryOp) and isinstance(e.op, ast.Not):
        return e.operand
    if isinstance(e, ast.Compare) and len(e.ops) == 1 and type(e.ops[0]) in NEG and not isinstance(e.ops[0], (ast.Lt, ast.GtE, ast.Gt, ast.LtE)):
        n = ast.Compare(left=e.left, ops=[NEG[type(e.ops[0])]()], comparators=e.comparators)
        return ast.copy_location(n, e)
    return ast.copy_location(ast.UnaryOp(op=ast.Not(), operand=e), e)


class Canon(ast.NodeTransformer):
    def visit_UnaryOp(self, node: ast.UnaryOp):
        self.generic_visit(node)
        if isinstance(node.op, ast.Not):
            o = node.operand
            if isinstance(o, ast.UnaryOp) and isinstance(o.op, ast.Not):
                return o.operand
            if isinstance(o, ast.Compare) and len(o.ops) == 1 and isinstance(o.ops[0], (ast.Eq, ast.NotEq, ast.In, ast.NotIn, ast.Is, ast.IsNot)):
                return negate(o)
        return node

    def visit_Compare(self, node: ast.Compare):
        self.generic_visit(node)
        if len(node.ops) == 1 and isinstance(node.ops[0], (ast.Eq, ast.NotEq)):
            l, r = node.left, node.comparators[0]
            if _is_const_like(l) and not _is_const_like(r):
                node.left, node.comparators = r, [l]
        return node

    def visit_BoolOp(self, node: ast.BoolOp):
        self.generic_visit(node)
        want = ast.Eq if isinstance(node.op, ast.Or) else ast.NotEq
        vals = node.values
        if len(vals) >= 2 and all(isinstance(v, ast.Compare) and len(v.ops) == 1 and isinstance(v.ops[0], want) for v in vals):
            lefts = {_src(v.left) for v in vals}
            if len(lefts) == 1 and all(_is_const_like(v.comparators[0]) for v in vals):
                tup = ast.Tuple(elts=[v.comparators[0] for v in vals], ctx=ast.Load())
                ast.copy_location(tup, vals[0])
                n = ast.Compare(left=vals[0].left, ops=[ast.In() if want is ast.Eq else ast.NotIn()], comparators=[tup])
                return ast.copy_location(n, node)
        return node

    def visit_If(self, node: ast.If):
        self.generic_visit(node)
        if node.orelse and isinstance(node.test, ast.UnaryOp) and isinstance(node.test.op, ast.Not) \
                and not (len(node.orelse) == 1 and isinstance(node.orelse[0], ast.If)):
            node.test = node.test.operand
            node.body, node.orelse = node.orelse, node.body
        elif node.orelse and isinstance(node.test, ast.Compare) and len(node.test.ops) == 1 and isinstance(node.test.ops[0], (ast.NotEq, ast.NotIn, ast.IsNot)) \
                and not (len(node.orelse) == 1 and isinstance(node.orelse[0], ast.If)):
            node.test = negate(node.test)
            node.body, node.orelse = node.orelse, node.body
        return node

    def visit_IfExp(self, node: ast.IfExp):
        self.generic_visit(node)
        if isinstance(node.test, ast.UnaryOp) and isinstance(node.test.op, ast.Not):
            node.test = node.test.operand
            node.body, node.orelse = node.orelse, node.body
        return node

    def visit_Assign(self, node: ast.Assign):
        self.generic_visit(node)
        if len(node.targets) == 1 and isinstance(node.targets[0], ast.Name) and isinstance(node.value, ast.BinOp) and isinstance(node.value.op, ast.Add) \
                and isinstance(node.value.left, ast.Name) and node.value.left.id == node.targets[0].id:
            n = ast.AugAssign(target=ast.Name(id=node.targets[0].id, ctx=ast.Store()), op=ast.Add(), value=node.value.right)
            ast.copy_location(n.target, node.targets[0])
            return ast.copy_location(n, node)
        return node




# ----------------------------------------------------------------------------------------------
# statement-level desugaring (needs the module's literal tables)
# ----------------------------------------------------------------------------------------------

def _pure_cell(c: ast.AST) -> bool:
    if isinstance(c, (ast.Constant, ast.Name, ast.Lambda)):
        return True
    if isinstance(c, ast.Attribute):
        return _pure_cell(c.value)
    if isinstance(c, ast.BoolOp):
        return all(_pure_cell(v) for v in c.values)
    if isinstance(c, ast.UnaryOp) and isinstance(c.op, ast.Not):
        return _pure_cell(c.operand)
    if isinstance(c, ast.Compare):
        return _pure_cell(c.left) and all(_pure_cell(x) for x in c.comparators)
    return False


def _literal_table(v: ast.AST) -> Optional[List[List[ast.AST]]]:
    """Rows of a literal tuple/list of equally long tuples whose cells are constants, names, attributes or lambdas."""
    if not isinstance(v, (ast.Tuple, ast.List)) or not v.elts or len(v.elts) > 24:
        return None
    rows: List[List[ast.AST]] = []
    for e in v.elts:
        if not isinstance(e, (ast.Tuple, ast.List)) or not e.elts:
            return None
        if not all(_pure_cell(c) for c in e.elts):
            return None
        rows.append(list(e.elts))
    if len({len(r) for r in rows}) != 1:
        return None
    return rows


class _Subst(ast.NodeTransformer):
    def __init__(self, mapping):
        self.m = mapping

    def visit_Name(self, node):
        if isinstance(node.ctx, ast.Load) and node.id in self.m:
            import copy
            return ast.copy_location(copy.deepcopy(self.m[node.id]), node)
        return node

    def visit_Call(self, node):
        self.generic_visit(node)
        # (lambda x: E)(a)  ->  E[x := a]   for single-expression lambdas substituted from a table cell
        if isinstance(node.func, ast.Lambda) and not node.keywords and len(node.args) == len(node.func.args.args):
            import copy
            m = {p.arg: a for p, a in zip(node.func.args.args, node.args)}
            body = _Subst(m).visit(copy.deepcopy(node.func.body))
            return ast.copy_location(body, node)
        # getattr(x, 'name') -> x.name
        if isinstance(node.func, ast.Name) and node.func.id == 'getattr' and len(node.args) == 2 and isinstance(node.args[1], ast.Constant) \
                and isinstance(node.args[1].value, str) and node.args[1].value.isidentifier():
            return ast.copy_location(ast.Attribute(value=node.args[0], attr=node.args[1].value, ctx=ast.Load()), node)
        return node


class Desugar(ast.NodeTransformer):
    def __init__(self, tables):
        self.tables = tables            # name -> rows (module level and class level literal tables)

    def _body(self, body: List[ast.stmt], local_tables=None) -> List[ast.stmt]:
        import copy
        local_tables = dict(local_tables or {})
        out: List[ast.stmt] = []
        i = 0
        while i < len(body):
            st = self.visit(body[i])
            nxt = body[i + 1] if i + 1 < len(body) else None
            # literal tables assigned locally
            if isinstance(st, ast.Assign) and len(st.targets) == 1 and isinstance(st.targets[0], ast.Name):
                rows = _literal_table(st.value)
                if rows is not None:
                    local_tables[st.targets[0].id] = rows
            # D3: for a, b in TABLE: body   ->  unrolled copies
            if isinstance(st, ast.For) and not st.orelse and isinstance(st.iter, (ast.Name, ast.Tuple, ast.List)) and isinstance(st.target, (ast.Tuple, ast.Name)):
                rows = (local_tables.get(st.iter.id) or self.tables.get(st.iter.id)) if isinstance(st.iter, ast.Name) else _literal_table(st.iter)
                if rows is not None and not any(isinstance(x, (ast.Break, ast.Continue)) for b in st.body for x in ast.walk(b)):
                    names = [t.id for t in st.target.elts] if isinstance(st.target, ast.Tuple) and all(isinstance(t, ast.Name) for t in st.target.elts) else None
                    if names and len(names) == len(rows[0]):
                        for row in rows:
                            m = dict(zip(names, row))
                            for b in st.body:
                                nb = _Subst(m).visit(copy.deepcopy(b))
                                ast.copy_location(nb, st)
                                out.append(nb)
                        i += 1
                        continue
            # D3b: X.extend(E for a, b in TABLE if C)  ->  per row: if C: X.append(E)
            if isinstance(st, ast.Expr) and isinstance(st.value, ast.Call) and isinstance(st.value.func, ast.Attribute) and st.value.func.attr == 'extend' \
                    and len(st.value.args) == 1 and isinstance(st.value.args[0], (ast.GeneratorExp, ast.ListComp)) and len(st.value.args[0].generators) == 1:
                ge = st.value.args[0]
                g = ge.generators[0]
                rows = None
                if isinstance(g.iter, ast.Name):
                    rows = local_tables.get(g.iter.id) or self.tables.get(g.iter.id)
                elif isinstance(g.iter, (ast.Tuple, ast.List)):
                    rows = _literal_table(g.iter)
                names = [t.id for t in g.target.elts] if isinstance(g.target, ast.Tuple) and all(isinstance(t, ast.Name) for t in g.target.elts) else None
                if rows is not None and names and len(names) == len(rows[0]):
                    for row in rows:
                        m = dict(zip(names, row))
                        app = ast.Expr(value=ast.Call(func=ast.Attribute(value=copy.deepcopy(st.value.func.value), attr='append', ctx=ast.Load()),
                                                      args=[_Subst(m).visit(copy.deepcopy(ge.elt))], keywords=[]))
                        node: ast.stmt = app
                        if g.ifs:
                            test = None
                            for c in g.ifs:
                                cc = _Subst(m).visit(copy.deepcopy(c))
                                test = cc if test is None else ast.BoolOp(op=ast.And(), values=[test, cc])
                            node = ast.If(test=test, body=[app], orelse=[])
                        for x in ast.walk(node):
                            ast.copy_location(x, st)
                        out.append(node)
                    i += 1
                    continue
            # D1: v = next((E for T in C if P), None) ; if v is None: RAISE   ->  for T in C: if P: v = E; break  else: RAISE
            if isinstance(st, ast.Assign) and len(st.targets) == 1 and isinstance(st.targets[0], ast.Name) and isinstance(st.value, ast.Call) \
                    and isinstance(st.value.func, ast.Name) and st.value.func.id == 'next' and len(st.value.args) == 2 \
                    and isinstance(st.value.args[0], ast.GeneratorExp) and len(st.value.args[0].generators) == 1 \
                    and isinstance(st.value.args[1], ast.Constant) and st.value.args[1].value is None:
                v = st.targets[0].id
                ge = st.value.args[0]
                g = ge.generators[0]
                assign = ast.Assign(targets=[ast.Name(id=v, ctx=ast.Store())], value=ge.elt)
                inner: List[ast.stmt] = [assign, ast.Break()]
                test: Optional[ast.AST] = None
                for c in g.ifs:
                    test = c if test is None else ast.BoolOp(op=ast.And(), values=[test, c])
                loop_body: List[ast.stmt] = [ast.If(test=test, body=inner, orelse=[])] if test is not None else inner
                loop = ast.For(target=g.target, iter=g.iter, body=loop_body, orelse=[])
                consumed = False
                if isinstance(nxt, ast.If) and isinstance(nxt.test, ast.Compare) and len(nxt.test.ops) == 1 and isinstance(nxt.test.comparators[0], ast.Constant) \
                        and nxt.test.comparators[0].value is None and isinstance(nxt.test.left, ast.Name) and nxt.test.left.id == v:
                    nvis = self.visit(nxt)
                    if isinstance(nxt.test.ops[0], ast.Is) and not nvis.orelse:
                        loop.orelse = nvis.body
                        consumed = True
                    elif isinstance(nxt.test.ops[0], ast.IsNot) and not nvis.orelse:
                        # if v is not None: USE   ->  the use happens where the match is found
                        inner[1:1] = nvis.body
                        consumed = True
                if not consumed:
                    init = ast.Assign(targets=[ast.Name(id=v, ctx=ast.Store())], value=ast.Constant(value=None))
                    out.append(ast.copy_location(init, st))
                for x in ast.walk(loop):
                    ast.copy_location(x, st)
                out.append(loop)
                i += 2 if consumed else 1
                continue
            # D2: if [not] any(P for T in C): BODY
            if isinstance(st, ast.If) and not st.orelse:
                t = st.test
                neg = False
                if isinstance(t, ast.UnaryOp) and isinstance(t.op, ast.Not):
                    t, neg = t.operand, True
                if isinstance(t, ast.Call) and isinstance(t.func, ast.Name) and t.func.id == 'any' and len(t.args) == 1 \
                        and isinstance(t.args[0], ast.GeneratorExp) and len(t.args[0].generators) == 1:
                    ge = t.args[0]
                    g = ge.generators[0]
                    cond = ge.elt
                    for c in g.ifs:
                        cond = ast.BoolOp(op=ast.And(), values=[c, cond])
                    if neg:
                        loop = ast.For(target=g.target, iter=g.iter, body=[ast.If(test=cond, body=[ast.Break()], orelse=[])], orelse=st.body)
                    else:
                        if not all(isinstance(b, ast.Raise) for b in st.body):
                            out.append(st)
                            i += 1
                            continue
                        loop = ast.For(target=g.target, iter=g.iter, body=[ast.If(test=cond, body=st.body, orelse=[])], orelse=[])
                    for x in ast.walk(loop):
                        if not hasattr(x, 'lineno'):
                            ast.copy_location(x, st)
                    ast.copy_location(loop, st)
                    out.append(loop)
                    i += 1
                    continue
            out.append(st)
            i += 1
        return out

    def generic_visit(self, node):
        for fld in ('body', 'orelse', 'finalbody'):
            b = getattr(node, fld, None)
            if isinstance(b, list) and b and isinstance(b[0], ast.stmt):
                setattr(node, fld, self._body(b))
        for h in getattr(node, 'handlers', []) or []:
            h.body = self._body(h.body)
        return node


def desugar(tree: ast.Module) -> ast.Module:
    tables = {}
    for st in tree.body:
        if isinstance(st, ast.Assign) and len(st.targets) == 1 and isinstance(st.targets[0], ast.Name):
            rows = _literal_table(st.value)
            if rows is not None:
                tables[st.targets[0].id] = rows
        if isinstance(st, ast.AnnAssign) and isinstance(st.target, ast.Name) and st.value is not None:
            rows = _literal_table(st.value)
            if rows is not None:
                tables[st.target.id] = rows
        if isinstance(st, ast.ClassDef):
            for s2 in st.body:
                if isinstance(s2, ast.Assign) and len(s2.targets) == 1 and isinstance(s2.targets[0], ast.Name):
                    rows = _literal_table(s2.value)
                    if rows is not None:
                        tables[s2.targets[0].id] = rows
    d = Desugar(tables)
    tree.body = d._body(tree.body)
    # getattr(x, 'const') and immediately applied lambdas everywhere
    tree = _Subst({}).visit(tree)
    ast.fix_missing_locations(tree)
    return tree


def canonicalise(tree: ast.AST) -> ast.AST:
    tree = Canon().visit(tree)
    ast.fix_missing_locations(tree)
    try:
        tree = desugar(tree)
    except RecursionError:      # pragma: no cover
        pass
    tree = Canon().visit(tree)
    ast.fix_missing_locations(tree)
    return tree
